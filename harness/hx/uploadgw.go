package hx

import (
	"context"
	"encoding/json"
	"fmt"
	"io"
	"math/rand"
	"sort"
	"sync"

	"github.com/nautilus/gateway"
	"github.com/nautilus/graphql"
	"github.com/vektah/gqlparser/v2"
	"github.com/vektah/gqlparser/v2/ast"
)

// L0.upload-through: a multipart request through the WHOLE gateway (handler, planner, the real executor) to services
// that do with the variables what the library's network queryer does — every top-level upload they are handed is
// taken out of the map (set to null) once it is on its way. The file must reach the service at the position its map
// entry names, and the request's own variables must still hold it afterwards (a response middleware looks): the
// position the entry named is not silently emptied again.

const uploadGwSDL = `
scalar Upload
type File { name: String! tag: String }
type Query { files: [File!]! }
type Mutation { upload(file: Upload!, tag: String): File! uploadMany(files: [Upload!]!, tag: String): File! }
`

var uploadGwSchema *ast.Schema

// UploadThroughGateway runs one generated case; nil when all is well.
func UploadThroughGateway(r *rand.Rand) []Failure {
	if uploadGwSchema == nil {
		s, err := gqlparser.LoadSchema(&ast.Source{Input: uploadGwSDL})
		if err != nil {
			panic(err)
		}
		uploadGwSchema = s
	}
	content := fmt.Sprintf("content-%d", r.Intn(1000))
	withTag := r.Intn(2) == 0
	extra := r.Intn(3) == 0 // a variable the operation does not use rides along
	query := `mutation ($file: Upload!) { upload(file: $file) { name } }`
	vars := map[string]interface{}{"file": nil}
	if withTag {
		query = `mutation ($file: Upload!, $tag: String) { upload(file: $file, tag: $tag) { name tag } }`
		vars["tag"] = "t"
	}
	if extra {
		vars["unused"] = 1
	}
	ops, _ := json.Marshal(map[string]interface{}{"query": query, "variables": vars})
	hc := HTTPCase{Method: "POST", Target: "/graphql", Form: map[string]string{"operations": string(ops), "map": `{"0":["variables.file"]}`}, Files: map[string]string{"0": content}}
	var mu sync.Mutex
	var received []string
	queryer := graphql.QueryerFunc(func(in *graphql.QueryInput) (interface{}, error) {
		got := "no upload at variables.file"
		if u, ok := in.Variables["file"].(graphql.Upload); ok && u.File != nil {
			b, _ := io.ReadAll(u.File)
			got = string(b)
		}
		mu.Lock()
		received = append(received, got)
		mu.Unlock()
		// as extractFiles does: the uploads are sent as parts, their variables as null
		for k, v := range in.Variables {
			if _, ok := v.(graphql.Upload); ok {
				in.Variables[k] = nil
			}
		}
		return map[string]interface{}{"upload": map[string]interface{}{"name": "f", "tag": "t"}}, nil
	})
	factory := gateway.QueryerFactory(func(ctx *gateway.PlanningContext, url string) graphql.Queryer { return queryer })
	var after string
	mw := gateway.ResponseMiddleware(func(ctx *gateway.ExecutionContext, response map[string]interface{}) error {
		after = "null"
		if u, ok := ctx.Variables["file"].(graphql.Upload); ok && u.File != nil {
			after = "upload"
		} else if v, has := ctx.Variables["file"]; !has {
			after = "absent"
		} else if v != nil {
			after = fmt.Sprintf("%T", v)
		}
		return nil
	})
	gw, err := gateway.New([]*graphql.RemoteSchema{{Schema: uploadGwSchema, URL: "up"}}, gateway.WithQueryerFactory(&factory), gateway.WithMiddlewares(mw), gateway.WithLogger(Quiet{}))
	if err != nil {
		return []Failure{{Channel: "harness", Classifier: "harness-error", What: err.Error()}}
	}
	rec, panicked := hc.Serve(gw)
	bad := func(what string, exp, obs interface{}) []Failure {
		return []Failure{{Channel: "L0.upload-through", Classifier: "unclassified", What: what, Input: hc, Expected: exp, Observed: obs}}
	}
	if panicked != nil {
		return bad(fmt.Sprintf("the handler panicked: %v", panicked), nil, nil)
	}
	_ = context.Background
	if len(received) != 1 || received[0] != content {
		return bad("the service did not receive the uploaded file at variables.file", content, map[string]interface{}{"received": received, "status": rec.Code, "body": truncate(rec.Body.String(), 300)})
	}
	if after != "upload" {
		return bad("after the execution the request's variables no longer hold the file at the position its map entry named (a service call was handed the request's own map)", "upload", after)
	}
	return nil
}

// L0.upload-net: a multipart request through the handler of a gateway in its DEFAULT configuration: the executor hands
// the injected uploads to the client library's network queryer, which sends a multipart request of its own; the
// service must receive every file at the variable position the client's map entry named.

const uploadNetSDL = `
scalar Upload
input In { file: Upload tag: String }
type File { name: String! }
type Query { files: [File!]! }
type Mutation { upload(file: Upload!, tag: String): File! uploadMany(files: [Upload!]!): File! uploadIn(input: In!): File! }
`

func UploadThroughNet(r *rand.Rand) []Failure {
	spec := FedSpec{SDLs: map[string]string{"U": uploadNetSDL}, Order: []string{"U"}}
	nf, err := NewNetFed(spec, Store{})
	if err != nil {
		return []Failure{{Channel: "harness", Classifier: "harness-error", What: err.Error()}}
	}
	defer nf.Close()
	svc := nf.Services["U"]
	svc.Answer = func(query string, vars map[string]interface{}) map[string]interface{} {
		f := map[string]interface{}{"name": "f"}
		return map[string]interface{}{"upload": f, "uploadMany": f, "uploadIn": f}
	}
	type shape struct {
		query string
		vars  map[string]interface{}
		files map[string]string // position -> content
	}
	c1, c2 := fmt.Sprintf("content-%d", r.Intn(1000)), fmt.Sprintf("other-%d", r.Intn(1000))
	shapes := []shape{
		{`mutation ($file: Upload!) { upload(file: $file) { name } }`, map[string]interface{}{"file": nil}, map[string]string{"variables.file": c1}},
		{`mutation ($file: Upload!, $tag: String) { upload(file: $file, tag: $tag) { name } }`, map[string]interface{}{"file": nil, "tag": "t"}, map[string]string{"variables.file": c1}},
		{`mutation ($files: [Upload!]!) { uploadMany(files: $files) { name } }`, map[string]interface{}{"files": []interface{}{nil, nil}}, map[string]string{"variables.files.0": c1, "variables.files.1": c2}},
		{`mutation ($input: In!) { uploadIn(input: $input) { name } }`, map[string]interface{}{"input": map[string]interface{}{"file": nil, "tag": "t"}}, map[string]string{"variables.input.file": c1}},
	}
	sh := shapes[r.Intn(len(shapes))]
	ops, _ := json.Marshal(map[string]interface{}{"query": sh.query, "variables": sh.vars})
	m := map[string][]string{}
	files := map[string]string{}
	k := 0
	var positions []string
	for p := range sh.files {
		positions = append(positions, p)
	}
	sort.Strings(positions)
	for _, p := range positions {
		m[fmt.Sprint(k)] = []string{p}
		files[fmt.Sprint(k)] = sh.files[p]
		k++
	}
	mb, _ := json.Marshal(m)
	hc := HTTPCase{Method: "POST", Target: "/graphql", Form: map[string]string{"operations": string(ops), "map": string(mb)}, Files: files}
	rec, panicked := hc.Serve(nf.GW)
	bad := func(what string, exp, obs interface{}) []Failure {
		return []Failure{{Channel: "L0.upload-net", Classifier: "unclassified", What: what, Input: hc, Expected: exp, Observed: obs}}
	}
	if panicked != nil {
		return bad(fmt.Sprintf("the handler panicked: %v", panicked), nil, nil)
	}
	svc.mu.Lock()
	got := append([]map[string]string{}, svc.Files...)
	svc.mu.Unlock()
	if len(got) != 1 {
		return bad(fmt.Sprintf("the service received %d requests for one upload mutation", len(got)), 1, map[string]interface{}{"status": rec.Code, "body": truncate(rec.Body.String(), 300)})
	}
	if Canon(toIfaceMap(got[0])) != Canon(toIfaceMap(sh.files)) {
		return bad("the files the service received (by the position their map entry names) are not the files the client sent", sh.files, map[string]interface{}{"files": got[0], "status": rec.Code, "body": truncate(rec.Body.String(), 300)})
	}
	return nil
}

func toIfaceMap(m map[string]string) map[string]interface{} {
	out := map[string]interface{}{}
	for k, v := range m {
		out[k] = v
	}
	return out
}
