package hx

import (
	"context"
	"fmt"
	"sync"

	"github.com/nautilus/graphql"
	"github.com/vektah/gqlparser/v2"
	"github.com/vektah/gqlparser/v2/ast"
)

// Call is one request a service received.
type Call struct {
	Query     string
	Variables map[string]interface{}
	OpName    string
	Rejected  string // validation error of the service's own schema, "" if valid
	Seq       int
	Ctx       context.Context
}

// Service is an in-process GraphQL service: it validates every received query against its own schema with
// gqlparser and executes it over the shared store.
type Service struct {
	URL    string
	SDL    string
	Schema *ast.Schema
	Store  Store
	mu     sync.Mutex
	Log    []*Call
	// Fail may replace the answer of call n: (payload, error, handled)
	Fail func(in *graphql.QueryInput, n int) (interface{}, error, bool)
	// Gate, when set, is called before answering (schedule control): it may block
	Gate func(svc *Service, n int, in *graphql.QueryInput)
	// Done, when set, is called when Query returns
	Done func()
	// DoneIn is like Done but receives the input
	DoneIn func(in *graphql.QueryInput)
	// Effects counts executions of mutation root fields
	Effects map[string]int
	// Scribble: the service treats the variables map it is handed as its own and overwrites its (top-level) entries
	// once it has answered — what the library's network queryer does with every upload it sends
	Scribble bool
}

func copyVars(m map[string]interface{}) map[string]interface{} {
	if m == nil {
		return nil
	}
	out := make(map[string]interface{}, len(m))
	for k, v := range m {
		out[k] = v
	}
	return out
}

func (s *Service) Query(ctx context.Context, in *graphql.QueryInput, recv interface{}) error {
	s.mu.Lock()
	n := len(s.Log)
	call := &Call{Query: in.Query, Variables: copyVars(in.Variables), OpName: in.OperationName, Seq: n, Ctx: ctx}
	s.Log = append(s.Log, call)
	s.mu.Unlock()
	if s.Gate != nil {
		s.Gate(s, n, in)
	}
	if s.Done != nil {
		defer s.Done()
	}
	if s.DoneIn != nil {
		defer s.DoneIn(in)
	}
	doc, errs := gqlparser.LoadQuery(s.Schema, in.Query)
	if errs != nil {
		s.mu.Lock()
		call.Rejected = errs.Error()
		s.mu.Unlock()
	}
	if s.Fail != nil {
		if v, err, ok := s.Fail(in, n); ok {
			if v != nil {
				*(recv.(*map[string]interface{})) = v.(map[string]interface{})
			}
			return err
		}
	}
	if errs != nil {
		return fmt.Errorf("SERVICE %s REJECTS QUERY: %v\n%s", s.URL, errs, in.Query)
	}
	if len(doc.Operations) > 0 && doc.Operations[0].Operation == ast.Mutation {
		s.mu.Lock()
		if s.Effects == nil {
			s.Effects = map[string]int{}
		}
		for _, sel := range doc.Operations[0].SelectionSet {
			if f, ok := sel.(*ast.Field); ok {
				s.Effects[f.Name]++
			}
		}
		s.mu.Unlock()
	}
	data, err := Exec(s.Schema, s.Store, doc, in.OperationName, in.Variables)
	if s.Scribble {
		for k := range in.Variables {
			in.Variables[k] = nil
		}
	}
	if err != nil {
		return err
	}
	*(recv.(*map[string]interface{})) = data
	return nil
}

// Calls returns a snapshot of the log.
func (s *Service) Calls() []*Call {
	s.mu.Lock()
	defer s.mu.Unlock()
	return append([]*Call{}, s.Log...)
}
