package hx

import (
	"fmt"
	"math/rand"
	"sort"
	"strings"

	"github.com/vektah/gqlparser/v2/ast"
)

// A tiny type-system generator for the merge properties: a global table of definitions from which every
// service draws a subset (so that services are compatible by construction) and a catalogue of single-point
// differences applied to one service's copy.

type mField struct {
	Name, Type, Args, Dirs, Desc string
}
type mDef struct {
	Kind   string // type | interface | union | enum | input | scalar | directive
	Name   string
	Ifaces []string
	Fields []mField // enum values: Name only; union members: Name only
	Dirs   string
	Locs   string // directive locations
	Desc   string
}

func (d mDef) sdl() string {
	var sb strings.Builder
	if d.Desc != "" {
		fmt.Fprintf(&sb, "%q\n", d.Desc)
	}
	switch d.Kind {
	case "scalar":
		fmt.Fprintf(&sb, "scalar %s %s\n", d.Name, d.Dirs)
	case "union":
		var ms []string
		for _, f := range d.Fields {
			ms = append(ms, f.Name)
		}
		fmt.Fprintf(&sb, "union %s = %s\n", d.Name, strings.Join(ms, " | "))
	case "enum":
		fmt.Fprintf(&sb, "enum %s {\n", d.Name)
		for _, f := range d.Fields {
			if f.Desc != "" {
				fmt.Fprintf(&sb, "  %q\n", f.Desc)
			}
			fmt.Fprintf(&sb, "  %s %s\n", f.Name, f.Dirs)
		}
		sb.WriteString("}\n")
	case "directive":
		locs, rep := d.Locs, ""
		if strings.HasPrefix(locs, "repeatable ") {
			locs, rep = strings.TrimPrefix(locs, "repeatable "), " repeatable"
		}
		fmt.Fprintf(&sb, "directive @%s%s%s on %s\n", d.Name, d.Fields[0].Args, rep, locs)
	default:
		impl := ""
		if len(d.Ifaces) > 0 {
			impl = " implements " + strings.Join(d.Ifaces, " & ")
		}
		fmt.Fprintf(&sb, "%s %s%s %s {\n", d.Kind, d.Name, impl, d.Dirs)
		for _, f := range d.Fields {
			if f.Desc != "" {
				fmt.Fprintf(&sb, "  %q\n", f.Desc)
			}
			fmt.Fprintf(&sb, "  %s%s: %s %s\n", f.Name, f.Args, f.Type, f.Dirs)
		}
		sb.WriteString("}\n")
	}
	return sb.String()
}

func mergeTable() []mDef {
	return []mDef{
		{Kind: "interface", Name: "Node", Fields: []mField{{Name: "id", Type: "ID!"}}},
		{Kind: "interface", Name: "Named", Fields: []mField{{Name: "id", Type: "ID!"}, {Name: "label", Type: "String", Args: "(lang: String = \"en\")"}}},
		{Kind: "type", Name: "Item", Ifaces: []string{"Node", "Named"}, Fields: []mField{{Name: "id", Type: "ID!"}, {Name: "label", Type: "String", Args: "(lang: String = \"en\")"},
			{Name: "price", Type: "Float", Desc: "in cents"}, {Name: "tags", Type: "[String!]"}, {Name: "matrix", Type: "[[Int]]"}, {Name: "state", Type: "State!"},
			{Name: "pick", Type: "[Item]", Args: "(ids: [Int] = [1, 2], opt: Opt = {deep: {n: 1}, flag: true})"}, {Name: "owner", Type: "Owner"}, {Name: "old", Type: "String", Dirs: "@deprecated(reason: \"gone\")"},
			{Name: "any", Type: "Thing"}, {Name: "when", Type: "Stamp"}, {Name: "retired", Type: "Retired"}}},
		{Kind: "type", Name: "Owner", Ifaces: []string{"Node"}, Fields: []mField{{Name: "id", Type: "ID!"}, {Name: "name", Type: "String!"}, {Name: "items", Type: "[Item!]!", Args: "(\"how many\" first: Int = 10, \"where to start\" after: String)"}, {Name: "since", Type: "Int", Args: "(\"the cursor\" cursor: String = \"null\", at: Stamp = 1, \"which ones\" mode: State = NEW, tagsIn: [String] = [])"}, {Name: "tagged", Type: "String", Dirs: "@tag(name: \"a\") @tag(name: \"b\")"}}},
		{Kind: "union", Name: "Thing", Fields: []mField{{Name: "Item"}, {Name: "Owner"}}},
		{Kind: "enum", Name: "State", Fields: []mField{{Name: "NEW", Desc: "never used"}, {Name: "USED", Dirs: "@deprecated(reason: \"x\")"}, {Name: "BROKEN", Desc: "out of order"}}},
		// everything deprecated: what is listed without includeDeprecated is an EMPTY list, not null
		{Kind: "enum", Name: "Legacy", Fields: []mField{{Name: "OLD", Dirs: "@deprecated"}, {Name: "OLDER", Dirs: "@deprecated(reason: \"long gone\")"}, {Name: "OLDEST", Dirs: "@deprecated(reason: \"\")"}}},
		{Kind: "type", Name: "Retired", Fields: []mField{{Name: "was", Type: "Legacy", Dirs: "@deprecated"}, {Name: "until", Type: "Int", Dirs: "@deprecated(reason: \"see Item.when\")"}, {Name: "blank", Type: "Int", Dirs: "@deprecated(reason: \" \")"}}},
		{Kind: "input", Name: "Opt", Fields: []mField{{Name: "deep", Type: "Deep"}, {Name: "flag", Type: "Boolean", Args: ""}, {Name: "n", Type: "Int = 3"}}},
		{Kind: "input", Name: "Deep", Fields: []mField{{Name: "n", Type: "Int"}}},
		{Kind: "scalar", Name: "Stamp"},
		{Kind: "directive", Name: "tag", Fields: []mField{{Args: "(name: String!)"}}, Locs: "repeatable FIELD_DEFINITION | OBJECT"},
		{Kind: "directive", Name: "live", Fields: []mField{{Args: "(\"seconds between updates\" every: Int = 5, \"random delay\" spread: Int, plain: Boolean)"}}, Locs: "FIELD | FIELD_DEFINITION"},
	}
}

// MergeCase is a list of service SDLs plus what was done to them.
type MergeCase struct {
	SDLs     []string `json:"sdls"`
	Mutation string   `json:"mutation,omitempty"`
	Mutated  int      `json:"mutated_service,omitempty"`
	// GatewayFields: query fields the gateway is given of its own (WithQueryFields); the gateway's own additions to
	// the merged schema are then Node, Query.node and these
	GatewayFields []GwField `json:"gateway_fields,omitempty"`
	// OldPrelude: 1 + the index of a service whose schema comes with the built-in directives of an older
	// specification (`@deprecated` on fields and enum values only), as a schema obtained from an older server does
	OldPrelude int `json:"old_prelude_service,omitempty"`
}

// GwField describes one gateway query field: `name(token: String!)?: [T]?`
type GwField struct {
	Name string `json:"name"`
	Type string `json:"type"`
	List bool   `json:"list,omitempty"`
	Arg  bool   `json:"arg,omitempty"`
}

func (g GwField) astType() *ast.Type {
	if g.List {
		return ast.ListType(ast.NamedType(g.Type, nil), nil)
	}
	return ast.NamedType(g.Type, nil)
}

func (g GwField) astArgs() ast.ArgumentDefinitionList {
	if g.Arg {
		return ast.ArgumentDefinitionList{{Name: "token", Type: ast.NonNullNamedType("String", nil)}}
	}
	return nil
}

// closure adds what the chosen definitions refer to
func closeDefs(tbl []mDef, chosen map[string]bool) {
	byName := map[string]mDef{}
	for _, d := range tbl {
		byName[d.Name] = d
	}
	for changed := true; changed; {
		changed = false
		add := func(n string) {
			fs := strings.Fields(n)
			if len(fs) == 0 {
				return
			}
			n = strings.Trim(fs[0], "[]!")
			if _, ok := byName[n]; ok && !chosen[n] {
				chosen[n] = true
				changed = true
			}
		}
		for n := range chosen {
			d := byName[n]
			for _, i := range d.Ifaces {
				add(i)
			}
			for _, f := range d.Fields {
				if d.Kind == "union" {
					add(f.Name)
				}
				add(f.Type)
				for _, w := range strings.FieldsFunc(f.Args, func(r rune) bool { return strings.ContainsRune("(),:=[]!{} ", r) }) {
					add(w)
				}
				if strings.Contains(f.Dirs, "@tag") {
					add("tag")
				}
			}
			if strings.Contains(d.Dirs, "@tag") {
				add("tag")
			}
		}
	}
}

// genService draws a service from the table: a subset of definitions, and for objects a subset of fields
func genService(r *rand.Rand, tbl []mDef, idx int) []mDef {
	chosen := map[string]bool{"Node": true}
	for _, d := range tbl {
		if r.Intn(2) == 0 {
			chosen[d.Name] = true
		}
	}
	var out []mDef
	// object field subsets first (they determine what must be closed over)
	sub := map[string]mDef{}
	for _, d := range tbl {
		if d.Kind == "type" {
			c := d
			c.Fields = nil
			for _, f := range d.Fields {
				if f.Name == "id" || f.Name == "label" || r.Intn(2) == 0 {
					c.Fields = append(c.Fields, f)
				}
			}
			// interface sets may differ between services
			if len(c.Ifaces) > 0 && r.Intn(7) == 0 {
				// a service may declare the type without any implements clause
				c.Ifaces = nil
			} else if len(c.Ifaces) > 1 && r.Intn(3) == 0 {
				c.Ifaces = c.Ifaces[:1]
			} else if len(c.Ifaces) > 1 && r.Intn(2) == 0 {
				// the same interfaces written in another order
				c.Ifaces = []string{c.Ifaces[1], c.Ifaces[0]}
			}
			if r.Intn(3) == 0 {
				c.Desc = fmt.Sprintf("%s as service %d sees it", d.Name, idx)
			}
			sub[d.Name] = c
		}
	}
	tbl2 := make([]mDef, len(tbl))
	for i, d := range tbl {
		if c, ok := sub[d.Name]; ok {
			tbl2[i] = c
		} else {
			tbl2[i] = d
		}
	}
	closeDefs(tbl2, chosen)
	for _, d := range tbl2 {
		if chosen[d.Name] {
			out = append(out, d)
		}
	}
	return out
}

func renderService(defs []mDef, idx int) string {
	var sb strings.Builder
	hasItem, hasOwner := false, false
	for _, d := range defs {
		sb.WriteString(d.sdl())
		if d.Name == "Item" && d.Kind == "type" {
			hasItem = true
		}
		if d.Name == "Owner" && d.Kind == "type" {
			hasOwner = true
		}
	}
	sb.WriteString("type Query {\n  node(id: ID!): Node\n")
	if hasItem {
		fmt.Fprintf(&sb, "  items%d: [Item]\n", idx)
	}
	if hasOwner {
		fmt.Fprintf(&sb, "  owner%d(id: ID!): Owner\n", idx)
	}
	fmt.Fprintf(&sb, "  ping%d: String\n}\n", idx)
	// a root type every service declares and no two services share a field of (the usual shape of Mutation)
	// (the first service three fields, the others one or two: field lists of different lengths and capacities)
	switch {
	case idx == 0:
		fmt.Fprintf(&sb, "type Mutation {\n  act%d(n: Int = 1): String\n  run%d: Boolean\n  put%d(id: ID!): Node\n}\n", idx, idx, idx)
	case idx%2 == 1:
		fmt.Fprintf(&sb, "type Mutation {\n  act%d(n: Int = 1): String\n}\n", idx)
	default:
		fmt.Fprintf(&sb, "type Mutation {\n  act%d(n: Int = 1): String\n  run%d: Boolean\n}\n", idx, idx)
	}
	return sb.String()
}

// mergeMutations is the catalogue of single-point differences; each returns false when it does not apply.
var mergeMutations = []struct {
	Name  string
	Apply func(defs []mDef) bool
}{
	{"kind:object->input", func(ds []mDef) bool { return setKind(ds, "Owner", "input", func(d *mDef) { d.Ifaces = nil; d.Fields = scalarFields(d.Fields) }) }},
	{"kind:object->interface", func(ds []mDef) bool { return setKind(ds, "Owner", "interface", func(d *mDef) { d.Ifaces = nil }) }},
	{"kind:enum->scalar", func(ds []mDef) bool { return setKind(ds, "State", "scalar", func(d *mDef) { d.Fields = nil }) }},
	{"kind:scalar->enum", func(ds []mDef) bool { return setKind(ds, "Stamp", "enum", func(d *mDef) { d.Fields = []mField{{Name: "A"}} }) }},
	{"kind:input->object", func(ds []mDef) bool { return setKind(ds, "Deep", "type", nil) }},
	{"kind:union->object", func(ds []mDef) bool { return setKind(ds, "Thing", "type", func(d *mDef) { d.Fields = []mField{{Name: "id", Type: "ID!"}} }) }},
	{"kind:interface->object", func(ds []mDef) bool { return setKind(ds, "Named", "type", nil) }},
	{"field-type", func(ds []mDef) bool { return setField(ds, "Item", "price", func(f *mField) { f.Type = "Int" }) }},
	{"field-nullability", func(ds []mDef) bool { return setField(ds, "Item", "price", func(f *mField) { f.Type = "Float!" }) }},
	{"field-inner-nullability", func(ds []mDef) bool { return setField(ds, "Item", "tags", func(f *mField) { f.Type = "[String]" }) }},
	{"field-list-depth", func(ds []mDef) bool { return setField(ds, "Item", "matrix", func(f *mField) { f.Type = "[Int]" }) }},
	{"field-list-vs-single", func(ds []mDef) bool { return setField(ds, "Item", "tags", func(f *mField) { f.Type = "String!" }) }},
	{"arg-added", func(ds []mDef) bool { return setField(ds, "Owner", "items", func(f *mField) { f.Args = "(first: Int = 10, after: String, extra: Int)" }) }},
	{"arg-removed", func(ds []mDef) bool { return setField(ds, "Owner", "items", func(f *mField) { f.Args = "(first: Int = 10)" }) }},
	{"arg-renamed", func(ds []mDef) bool { return setField(ds, "Owner", "items", func(f *mField) { f.Args = "(first: Int = 10, before: String)" }) }},
	{"arg-type", func(ds []mDef) bool { return setField(ds, "Owner", "items", func(f *mField) { f.Args = "(first: Float = 10, after: String)" }) }},
	{"arg-default-scalar", func(ds []mDef) bool { return setField(ds, "Owner", "items", func(f *mField) { f.Args = "(first: Int = 11, after: String)" }) }},
	{"arg-default-dropped", func(ds []mDef) bool { return setField(ds, "Owner", "items", func(f *mField) { f.Args = "(first: Int, after: String)" }) }},
	{"arg-default-list", func(ds []mDef) bool { return setField(ds, "Item", "pick", func(f *mField) { f.Args = "(ids: [Int] = [3], opt: Opt = {deep: {n: 1}, flag: true})" }) }},
	{"arg-default-list-same-length", func(ds []mDef) bool { return setField(ds, "Item", "pick", func(f *mField) { f.Args = "(ids: [Int] = [1, 3], opt: Opt = {deep: {n: 1}, flag: true})" }) }},
	{"arg-default-object", func(ds []mDef) bool { return setField(ds, "Item", "pick", func(f *mField) { f.Args = "(ids: [Int] = [1, 2], opt: Opt = {deep: {n: 2}, flag: true})" }) }},
	{"arg-default-null-vs-string", func(ds []mDef) bool { return setField(ds, "Owner", "since", func(f *mField) { f.Args = strings.Replace(f.Args, "cursor: String = \"null\"", "cursor: String = null", 1) }) }},
	{"arg-default-int-vs-string", func(ds []mDef) bool { return setField(ds, "Owner", "since", func(f *mField) { f.Args = strings.Replace(f.Args, "at: Stamp = 1", "at: Stamp = \"1\"", 1) }) }},
	{"arg-default-enum-vs-string", func(ds []mDef) bool { return setField(ds, "Owner", "since", func(f *mField) { f.Args = strings.Replace(f.Args, "mode: State = NEW", "mode: State = \"NEW\"", 1) }) }},
	{"arg-default-empty-list-vs-object", func(ds []mDef) bool { return setField(ds, "Owner", "since", func(f *mField) { f.Args = strings.Replace(f.Args, "tagsIn: [String] = []", "tagsIn: [String] = {}", 1) }) }},
	{"input-field-default", func(ds []mDef) bool { return setField(ds, "Opt", "n", func(f *mField) { f.Type = "Int = 4" }) }},
	{"enum-value-renamed", func(ds []mDef) bool { return setField(ds, "State", "BROKEN", func(f *mField) { f.Name = "LOST" }) }},
	{"enum-value-added", func(ds []mDef) bool { return addField(ds, "State", mField{Name: "EXTRA"}) }},
	{"union-member-swapped", func(ds []mDef) bool { return setField(ds, "Thing", "Owner", func(f *mField) { f.Name = "Node2" }) && addDef(ds) }},
	{"union-member-removed", func(ds []mDef) bool { return dropField(ds, "Thing", "Owner") }},
	{"interface-field-renamed", func(ds []mDef) bool { return setField(ds, "Named", "label", func(f *mField) { f.Name = "title" }) && renameImpl(ds, "label", "title") }},
	{"interface-field-added", func(ds []mDef) bool { return addField(ds, "Node", mField{Name: "rev", Type: "Int"}) && addToImpl(ds, "Node", mField{Name: "rev", Type: "Int"}) }},
	{"input-field-renamed", func(ds []mDef) bool { return setField(ds, "Deep", "n", func(f *mField) { f.Name = "m" }) && fixDeepDefault(ds) }},
	{"input-field-added", func(ds []mDef) bool { return addField(ds, "Deep", mField{Name: "z", Type: "Int"}) }},
	{"input-field-type", func(ds []mDef) bool { return setField(ds, "Opt", "flag", func(f *mField) { f.Type = "Int" }) && fixOptDefault(ds) }},
	{"directive-executable-location", func(ds []mDef) bool { return setDef(ds, "live", func(d *mDef) { d.Locs = "QUERY | FIELD_DEFINITION" }) }},
	{"directive-executable-location-dropped", func(ds []mDef) bool { return setDef(ds, "live", func(d *mDef) { d.Locs = "FIELD_DEFINITION" }) }},
	// one executable location more, for each of the executable locations (each is its own branch of a classifier)
	{"directive-executable-location-added-variable-definition", func(ds []mDef) bool { return setDef(ds, "live", func(d *mDef) { d.Locs = "FIELD | VARIABLE_DEFINITION | FIELD_DEFINITION" }) }},
	{"directive-executable-location-added-fragment-spread", func(ds []mDef) bool { return setDef(ds, "live", func(d *mDef) { d.Locs = "FIELD | FRAGMENT_SPREAD | FIELD_DEFINITION" }) }},
	{"directive-executable-location-added-inline-fragment", func(ds []mDef) bool { return setDef(ds, "live", func(d *mDef) { d.Locs = "FIELD | INLINE_FRAGMENT | FIELD_DEFINITION" }) }},
	{"directive-executable-location-added-fragment-definition", func(ds []mDef) bool { return setDef(ds, "live", func(d *mDef) { d.Locs = "FIELD | FRAGMENT_DEFINITION | FIELD_DEFINITION" }) }},
	{"directive-executable-location-added-mutation", func(ds []mDef) bool { return setDef(ds, "live", func(d *mDef) { d.Locs = "FIELD | MUTATION | FIELD_DEFINITION" }) }},
	{"directive-executable-location-added-subscription", func(ds []mDef) bool { return setDef(ds, "live", func(d *mDef) { d.Locs = "FIELD | SUBSCRIPTION | FIELD_DEFINITION" }) }},
	{"directive-arg-type", func(ds []mDef) bool { return setDef(ds, "live", func(d *mDef) { d.Fields[0].Args = "(every: Float = 5)" }) }},
	{"directive-arg-default", func(ds []mDef) bool { return setDef(ds, "live", func(d *mDef) { d.Fields[0].Args = "(every: Int = 6)" }) }},
	{"directive-arg-added", func(ds []mDef) bool { return setDef(ds, "tag", func(d *mDef) { d.Fields[0].Args = "(name: String!, extra: Int)" }) }},
	{"applied-directive-arg", func(ds []mDef) bool { return setField(ds, "Item", "old", func(f *mField) { f.Dirs = "@deprecated(reason: \"other\")" }) }},
	{"applied-directive-dropped", func(ds []mDef) bool { return setField(ds, "Item", "old", func(f *mField) { f.Dirs = "" }) }},
	{"applied-repeatable-directive-multiset", func(ds []mDef) bool { return setField(ds, "Owner", "tagged", func(f *mField) { f.Dirs = "@tag(name: \"a\") @tag(name: \"a\")" }) }},
	{"enum-value-directive", func(ds []mDef) bool { return setField(ds, "State", "USED", func(f *mField) { f.Dirs = "" }) }},
	// compatible variations (construction must still succeed)
	{"ok:description", func(ds []mDef) bool { return setDef(ds, "Item", func(d *mDef) { d.Desc = "another description" }) }},
	{"ok:type-system-location", func(ds []mDef) bool { return setDef(ds, "tag", func(d *mDef) { d.Locs = "repeatable FIELD_DEFINITION | OBJECT | ENUM_VALUE" }) }},
	{"ok:field-dropped-from-object", func(ds []mDef) bool { return dropField(ds, "Item", "price") }},
}

func find(ds []mDef, name string) *mDef {
	for i := range ds {
		if ds[i].Name == name {
			return &ds[i]
		}
	}
	return nil
}
func setKind(ds []mDef, name, kind string, f func(*mDef)) bool {
	d := find(ds, name)
	if d == nil {
		return false
	}
	d.Kind = kind
	d.Fields = append([]mField{}, d.Fields...)
	if f != nil {
		f(d)
	}
	// other definitions of this service that refer to it in a way the new kind forbids are left alone on
	// purpose: the service's own SDL must stay loadable, so references are patched minimally
	return true
}
func scalarFields(fs []mField) []mField {
	var out []mField
	for _, f := range fs {
		t := strings.Trim(f.Type, "[]!")
		if t == "ID" || t == "String" || t == "Int" || t == "Float" || t == "Boolean" {
			out = append(out, mField{Name: f.Name, Type: f.Type})
		}
	}
	return out
}
func setDef(ds []mDef, name string, f func(*mDef)) bool {
	d := find(ds, name)
	if d == nil {
		return false
	}
	d.Fields = append([]mField{}, d.Fields...)
	f(d)
	return true
}
func setField(ds []mDef, def, field string, f func(*mField)) bool {
	d := find(ds, def)
	if d == nil {
		return false
	}
	d.Fields = append([]mField{}, d.Fields...)
	for i := range d.Fields {
		if d.Fields[i].Name == field {
			f(&d.Fields[i])
			return true
		}
	}
	return false
}
func addField(ds []mDef, def string, nf mField) bool {
	d := find(ds, def)
	if d == nil {
		return false
	}
	d.Fields = append(append([]mField{}, d.Fields...), nf)
	return true
}
func dropField(ds []mDef, def, field string) bool {
	d := find(ds, def)
	if d == nil {
		return false
	}
	var out []mField
	hit := false
	for _, f := range d.Fields {
		if f.Name == field {
			hit = true
			continue
		}
		out = append(out, f)
	}
	d.Fields = out
	return hit && len(out) > 0
}
func addDef(ds []mDef) bool { return false } // union member swap needs a new type: not applicable in place
func renameImpl(ds []mDef, from, to string) bool {
	for i := range ds {
		if ds[i].Kind == "type" {
			for _, ifc := range ds[i].Ifaces {
				if ifc == "Named" {
					setField(ds, ds[i].Name, from, func(f *mField) { f.Name = to })
				}
			}
		}
	}
	return true
}
func addToImpl(ds []mDef, iface string, nf mField) bool {
	for i := range ds {
		if ds[i].Kind == "type" {
			for _, ifc := range ds[i].Ifaces {
				if ifc == iface {
					addField(ds, ds[i].Name, nf)
				}
			}
		}
	}
	return true
}
func fixDeepDefault(ds []mDef) bool {
	setField(ds, "Item", "pick", func(f *mField) { f.Args = strings.ReplaceAll(f.Args, "{n: 1}", "{m: 1}") })
	return true
}
func fixOptDefault(ds []mDef) bool {
	setField(ds, "Item", "pick", func(f *mField) { f.Args = strings.ReplaceAll(f.Args, "flag: true", "flag: 1") })
	return true
}

// ---- canonical serialisation of a gqlparser schema for the Lean merge model and for comparison

func typeStr(t *ast.Type) string {
	if t == nil {
		return ""
	}
	return t.String()
}
func valStr(v *ast.Value) string {
	if v == nil {
		return "<none>"
	}
	return canonValue(v)
}

// canonValue prints a value deeply with object fields sorted (so that {a:1,b:2} = {b:2,a:1})
func canonValue(v *ast.Value) string {
	switch v.Kind {
	case ast.ListValue:
		var xs []string
		for _, c := range v.Children {
			xs = append(xs, canonValue(c.Value))
		}
		return "[" + strings.Join(xs, ",") + "]"
	case ast.ObjectValue:
		var xs []string
		for _, c := range v.Children {
			xs = append(xs, c.Name+":"+canonValue(c.Value))
		}
		sort.Strings(xs)
		return "{" + strings.Join(xs, ",") + "}"
	}
	return fmt.Sprintf("%d:%s", v.Kind, v.Raw)
}
func dirsStr(ds ast.DirectiveList) string {
	var xs []string
	for _, d := range ds {
		var as []string
		for _, a := range d.Arguments {
			as = append(as, a.Name+"="+valStr(a.Value))
		}
		sort.Strings(as)
		xs = append(xs, "@"+d.Name+"("+strings.Join(as, ",")+")")
	}
	sort.Strings(xs)
	return strings.Join(xs, " ")
}
func argsStr(as ast.ArgumentDefinitionList, withDefault bool) string {
	var xs []string
	for _, a := range as {
		s := a.Name + ":" + typeStr(a.Type)
		if withDefault {
			s += "=" + valStr(a.DefaultValue)
		}
		xs = append(xs, s)
	}
	sort.Strings(xs)
	return strings.Join(xs, ";")
}
func fieldSig(f *ast.FieldDefinition) string {
	return typeStr(f.Type) + " (" + argsStr(f.Arguments, true) + ") =" + valStr(f.DefaultValue) + " " + dirsStr(f.Directives)
}

var execLocs = map[ast.DirectiveLocation]bool{ast.LocationQuery: true, ast.LocationMutation: true, ast.LocationSubscription: true, ast.LocationField: true,
	ast.LocationFragmentDefinition: true, ast.LocationFragmentSpread: true, ast.LocationInlineFragment: true, ast.LocationVariableDefinition: true}

func builtinName(n string) bool {
	switch n {
	case "Int", "Float", "String", "Boolean", "ID", "skip", "include", "deprecated", "specifiedBy", "defer", "oneOf":
		return true
	}
	return strings.HasPrefix(n, "__")
}

// SerSchema renders the non-builtin definitions of a schema in the shape the Lean `merge` op expects.
func SerSchema(s *ast.Schema) map[string]interface{} {
	types := []interface{}{}
	var names []string
	for n := range s.Types {
		names = append(names, n)
	}
	sort.Strings(names)
	for _, n := range names {
		d := s.Types[n]
		if builtinName(n) {
			continue
		}
		if d == nil {
			types = append(types, map[string]interface{}{"name": n, "kind": "<nil definition>", "fields": []interface{}{}, "ifaces": []string{}})
			continue
		}
		fields := []interface{}{}
		switch d.Kind {
		case ast.Enum:
			for _, v := range d.EnumValues {
				if v == nil {
					fields = append(fields, map[string]interface{}{"name": "<nil enum value>", "sig": ""})
					continue
				}
				fields = append(fields, map[string]interface{}{"name": v.Name, "sig": dirsStr(v.Directives)})
			}
		case ast.Union:
			for _, t := range d.Types {
				fields = append(fields, map[string]interface{}{"name": t, "sig": ""})
			}
		default:
			for _, f := range d.Fields {
				if strings.HasPrefix(f.Name, "__") {
					continue
				}
				fields = append(fields, map[string]interface{}{"name": f.Name, "sig": fieldSig(f)})
			}
		}
		if d.Kind == ast.Object || d.Kind == ast.InputObject || d.Kind == ast.Scalar {
			fields = append(fields, map[string]interface{}{"name": "@applied", "sig": dirsStr(d.Directives)})
		}
		ifaces := append([]string{}, d.Interfaces...)
		types = append(types, map[string]interface{}{"name": n, "kind": string(d.Kind), "fields": fields, "ifaces": ifaces})
	}
	dirs := []interface{}{}
	var dnames []string
	for n := range s.Directives {
		dnames = append(dnames, n)
	}
	sort.Strings(dnames)
	for _, n := range dnames {
		d := s.Directives[n]
		if builtinName(n) {
			continue
		}
		fields := []interface{}{}
		for _, a := range d.Arguments {
			fields = append(fields, map[string]interface{}{"name": a.Name, "sig": typeStr(a.Type) + "=" + valStr(a.DefaultValue)})
		}
		var ex []string
		for _, l := range d.Locations {
			if execLocs[l] {
				ex = append(ex, string(l))
			}
		}
		sort.Strings(ex)
		fields = append(fields, map[string]interface{}{"name": "@executable", "sig": strings.Join(ex, "|")})
		dirs = append(dirs, map[string]interface{}{"name": n, "kind": "INPUT_OBJECT", "fields": fields, "ifaces": []string{}})
	}
	return map[string]interface{}{"types": types, "directives": dirs}
}

// CanonMerged renders a merged schema the way the model's answer is rendered (for comparison).
func CanonMerged(s *ast.Schema) map[string]interface{} {
	ser := SerSchema(s)
	types := map[string]interface{}{}
	for _, t := range ser["types"].([]interface{}) {
		m := t.(map[string]interface{})
		var fs []string
		for _, f := range m["fields"].([]interface{}) {
			fm := f.(map[string]interface{})
			fs = append(fs, fm["name"].(string)+" sig:"+fm["sig"].(string))
		}
		sort.Strings(fs)
		ifs := append([]string{}, m["ifaces"].([]string)...)
		sort.Strings(ifs)
		types[m["name"].(string)] = map[string]interface{}{"name": m["name"], "kind": m["kind"], "fields": fs, "ifaces": ifs}
	}
	dirs := map[string]interface{}{}
	for _, t := range ser["directives"].([]interface{}) {
		m := t.(map[string]interface{})
		var fs []string
		for _, f := range m["fields"].([]interface{}) {
			fm := f.(map[string]interface{})
			fs = append(fs, fm["name"].(string)+" sig:"+fm["sig"].(string))
		}
		sort.Strings(fs)
		dirs[m["name"].(string)] = map[string]interface{}{"name": m["name"], "kind": m["kind"], "fields": fs, "ifaces": []string{}}
	}
	possible := map[string]interface{}{}
	implements := map[string]interface{}{}
	for n, d := range s.Types {
		if builtinName(n) {
			continue
		}
		if d.Kind == ast.Interface || d.Kind == ast.Union {
			set := map[string]bool{}
			for _, p := range s.PossibleTypes[n] {
				set[p.Name] = true
			}
			var l []string
			for k := range set {
				l = append(l, k)
			}
			sort.Strings(l)
			possible[n] = l
		}
		if d.Kind == ast.Object {
			set := map[string]bool{}
			for _, p := range s.Implements[n] {
				set[p.Name] = true
			}
			var l []string
			for k := range set {
				l = append(l, k)
			}
			sort.Strings(l)
			if len(l) > 0 {
				implements[n] = l
			}
		}
	}
	return map[string]interface{}{"types": types, "directives": dirs, "possible": possible, "implements": implements}
}
