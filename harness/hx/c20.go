package hx

import (
	"fmt"
	"github.com/vektah/gqlparser/v2"
	"sort"

	"github.com/nautilus/gateway"
	"github.com/vektah/gqlparser/v2/ast"
)

// ---------------------------------------------------------------------------------------------
// C20 — multi-homed fields: priority, then locality, however the field is written
//   L1: for every field of every step of the real plan, the step's service must be what the Lean chooser
//   (instantiated with the order read from plan.go) returns on the captured routing table
// ---------------------------------------------------------------------------------------------

type c20 struct{}

func (c20) Cases(tier string) int {
	switch tier {
	case "thorough":
		return len(FedCorpus) + 10000
	case "search":
		return len(FedCorpus) + 3000
	}
	return len(FedCorpus) + 1200
}

func (c20) Rule() string {
	return "L1.routing: the routing table handed to the planner against the Lean routing model computed from the service schemas (what a service offers is what its schema declares); L2.new-options: 2 random option lists per case through gateway.New against Nw.build (the installed planner is told the last priority list wherever its option stands); federations with 35% multi-homed fields and priorities (absent, partial, total, naming unknown services; the priorities option given to gateway.New after or before the planner option) x queries writing fields plain, inside inline fragments (typed/untyped/nested) and inside named fragments; planning only; every field occurrence of every plan step is checked against the Lean chooser evaluated on the routing table captured through WithPlanner (parent = the location of the enclosing object's step); non-trivial = at least one multi-homed field decided; distinct = distinct (federation, priorities, query); a third of the priority lists get blank, unknown or repeated entries at random places"
}

type placedField struct {
	Type, Field, Loc, Parent, Via string
}

// placedFields lists (type, field, step location, parent location, how it was written) for a plan.
func placedFields(plan *gateway.QueryPlan, internal string) []placedField {
	var out []placedField
	loc := func(s *gateway.QueryPlanStep) string {
		u := StepURL(s)
		if u == "GW" {
			return internal
		}
		return u
	}
	var walkSel func(step *gateway.QueryPlanStep, ss ast.SelectionSet, parentType, parentLoc, stepLoc, via string, seen map[string]bool)
	walkSel = func(step *gateway.QueryPlanStep, ss ast.SelectionSet, parentType, parentLoc, stepLoc, via string, seen map[string]bool) {
		for _, sel := range ss {
			switch sel := sel.(type) {
			case *ast.Field:
				if sel.Name == "id" && sel.Alias == "" {
					continue // injected by the planner, not chosen
				}
				out = append(out, placedField{parentType, sel.Name, stepLoc, parentLoc, via})
				if len(sel.SelectionSet) > 0 && sel.Definition != nil {
					t := sel.Definition.Type
					for t.Elem != nil {
						t = t.Elem
					}
					walkSel(step, sel.SelectionSet, t.NamedType, stepLoc, stepLoc, "plain", map[string]bool{})
				}
			case *ast.InlineFragment:
				pt := parentType
				if sel.TypeCondition != "" {
					pt = sel.TypeCondition
				}
				walkSel(step, sel.SelectionSet, pt, parentLoc, stepLoc, "inline", seen)
			case *ast.FragmentSpread:
				if seen[sel.Name] {
					continue
				}
				seen[sel.Name] = true
				if d := step.FragmentDefinitions.ForName(sel.Name); d != nil {
					walkSel(step, d.SelectionSet, d.TypeCondition, parentLoc, stepLoc, "named", seen)
				}
			}
		}
	}
	var walkStep func(step *gateway.QueryPlanStep, parentLoc string)
	walkStep = func(step *gateway.QueryPlanStep, parentLoc string) {
		l := loc(step)
		walkSel(step, step.SelectionSet, step.ParentType, parentLoc, l, "plain", map[string]bool{})
		for _, k := range step.Then {
			walkStep(k, l)
		}
	}
	for _, s := range plan.RootStep.Then {
		walkStep(s, "")
	}
	return out
}

func (c20) Run(c *Ctx, i int) CaseResult {
	// L2: the routing table's own operations (RegisterURL, Concat, URLFor) against Um (3 sequences per case)
	for k := 0; k < 3; k++ {
		if uf := UrlMapCorr(c, c.Rand(i*10+k+64000000)); len(uf) > 0 {
			return CaseResult{ID: fmt.Sprintf("gen:%d", i), Nontrivial: true, Fails: uf}
		}
	}
	var in FedInput
	feats := map[string]bool{}
	id := ""
	if i < len(FedCorpus) {
		in, id = FedCorpus[i].In, "corpus:"+FedCorpus[i].ID
	} else {
		r := c.Rand(i + 2000000)
		in, feats = GenFedInput(c, i+2000000, "C20")
		in.Spec = GenFed(r, 2+r.Intn(3), 35)
		if r.Intn(3) != 0 {
			p := append([]string{}, in.Spec.Order...)
			r.Shuffle(len(p), func(a, b int) { p[a], p[b] = p[b], p[a] })
			p = p[:1+r.Intn(len(p))]
			if r.Intn(4) == 0 {
				p = append([]string{"nowhere"}, p...)
			}
			if len(p) >= 2 && r.Intn(3) == 0 {
				// a service named twice with others in between: its FIRST occurrence is its rank
				p = append(p, p[r.Intn(len(p)-1)])
			}
			if r.Intn(3) == 0 {
				// entries that name no service (blank, unknown) and repetitions ANYWHERE in the list, the front included:
				// what follows them keeps its order
				for n := 1 + r.Intn(2); n > 0; n-- {
					at := r.Intn(len(p) + 1)
					ins := []string{"", "nowhere", p[r.Intn(len(p))], p[0]}[r.Intn(4)]
					p = append(p[:at], append([]string{ins}, p[at:]...)...)
				}
				feats["priorities-with-blanks-or-repeats"] = true
			}
			in.Spec.Priorities = p
			in.Spec.PrioritiesFirst = r.Intn(2) == 0
			feats["priorities"] = true
			if in.Spec.PrioritiesFirst {
				feats["priorities-option-before-planner-option"] = true
			}
		}
		id = fmt.Sprintf("gen:%d", i)
	}
	res := CaseResult{ID: id, Key: fmt.Sprint(in.Spec.SDLs, in.Spec.Priorities, in.Query)}
	// L2: the priorities reach the installed planner whatever the order of the options (New against Nw.build)
	for k := 0; k < 2; k++ {
		if nf := NewOptsCorr(c, c.Rand(i*10+k+64000000)); len(nf) > 0 {
			res.Nontrivial = true
			res.Fails = nf
			return res
		}
	}
	fc, err := RunFed(c, in, 5*1e9)
	if err != nil {
		res.Fails = append(res.Fails, Failure{Channel: "harness", Classifier: "harness-error", What: err.Error(), Input: in})
		return res
	}
	if fc.Invalid != "" {
		res.Skipped = "invalid-query:" + fc.Invalid
		return res
	}
	if fc.Out.PlanHung || fc.Out.PlanErr || fc.Out.Plans == nil {
		res.Skipped = "not-planned"
		return res
	}
	res.Features = FeatList(feats)
	internal := ""
	known := map[string]bool{}
	for _, s := range in.Spec.Order {
		known[s] = true
	}
	for _, locs := range fc.Fed.Locations {
		for _, l := range locs {
			if !known[l] {
				internal = l
			}
		}
	}
	// "offers it" is what the service schemas say, not what the gateway's own table says: the table the planner is
	// handed must be the routing model's, computed from the services' schemas in registration order
	if c.Drv != nil && fc.Fed.Locations != nil {
		var urls []string
		var schemas []*ast.Schema
		for _, svc := range fc.Fed.Services {
			urls = append(urls, svc.URL)
			schemas = append(schemas, svc.Schema)
		}
		if d := routeDiffURLs(c, fc.Fed, urls, schemas, gatewayOwnSchema()); d != "" {
			res.Fails = append(res.Fails, Failure{Channel: "L1.routing", Classifier: "unclassified", What: d, Input: in})
			return res
		}
	}
	configured := in.Spec.Priorities
	if configured == nil {
		configured = []string{}
	}
	multi, decided := 0, map[string]int{}
	for _, plan := range fc.Out.Plans {
		for _, pf := range placedFields(plan, internal) {
			possible, ok := fc.Fed.Locations[pf.Type+"."+pf.Field]
			if !ok {
				res.Fails = append(res.Fails, Failure{Channel: "L1.location", Classifier: "unclassified", What: fmt.Sprintf("%s.%s is in a step but not in the routing table", pf.Type, pf.Field), Input: in})
				continue
			}
			ans, err := c.Drv.Call(map[string]interface{}{"op": "select", "possible": possible, "configured": configured, "parent": pf.Parent, "internal": internal})
			if err != nil {
				res.Fails = append(res.Fails, Failure{Channel: "harness", Classifier: "harness-error", What: err.Error()})
				return res
			}
			want, _ := ans["loc"].(string)
			if len(possible) > 1 {
				multi++
				decided[pf.Via]++
			}
			if want != pf.Loc {
				res.Fails = append(res.Fails, Failure{Channel: "L1.location", Classifier: "unclassified",
					What:  fmt.Sprintf("%s.%s (written %s) is fetched from %q; the rule gives %q (possible %v, priorities %v, parent %q)", pf.Type, pf.Field, pf.Via, pf.Loc, want, possible, configured, pf.Parent),
					Input: in, Expected: want, Observed: map[string]interface{}{"location": pf.Loc, "plan": PlanText(fc.Out.Plans)}})
				break
			}
		}
	}
	res.Nontrivial = multi > 0
	res.Counters = map[string]int{"multi_homed_decisions": multi, "via_plain": decided["plain"], "via_inline": decided["inline"], "via_named": decided["named"]}
	if len(res.Fails) > 0 && i >= len(FedCorpus) {
		f0 := res.Fails[0]
		q := ShrinkQuery(in.Query, func(q string) bool {
			in2 := in
			in2.Query = q
			r2 := c20{}.runInput(c, in2)
			return len(r2) > 0
		}, 200)
		in2 := in
		in2.Query = q
		if f2 := (c20{}).runInput(c, in2); len(f2) > 0 {
			f0 = f2[0]
		}
		res.Fails = []Failure{f0}
	}
	// L1: the whole plan against the planner model (the chooser is one of its parts)
	res.Fails = append(res.Fails, PlanCorrFails(c, fc, in)...)
	if i%151 == 0 || i < 2 {
		ks := []string{}
		for k, v := range fc.Fed.Locations {
			if len(v) > 1 {
				ks = append(ks, fmt.Sprintf("%s=%v", k, v))
			}
		}
		sort.Strings(ks)
		if len(ks) > 6 {
			ks = ks[:6]
		}
		res.Sample = map[string]interface{}{"query": in.Query, "priorities": in.Spec.Priorities, "multi_homed": ks, "decisions": multi}
	}
	return res
}

// runInput re-evaluates the location oracle for an explicit input (used by the shrinker).
func (c20) runInput(c *Ctx, in FedInput) []Failure {
	saved := FedCorpus
	_ = saved
	fc, err := RunFed(c, in, 5*1e9)
	if err != nil || fc.Invalid != "" || fc.Out.PlanErr || fc.Out.PlanHung || fc.Out.Plans == nil {
		return nil
	}
	internal := ""
	known := map[string]bool{}
	for _, s := range in.Spec.Order {
		known[s] = true
	}
	for _, locs := range fc.Fed.Locations {
		for _, l := range locs {
			if !known[l] {
				internal = l
			}
		}
	}
	configured := in.Spec.Priorities
	if configured == nil {
		configured = []string{}
	}
	var fails []Failure
	for _, plan := range fc.Out.Plans {
		for _, pf := range placedFields(plan, internal) {
			possible, ok := fc.Fed.Locations[pf.Type+"."+pf.Field]
			if !ok {
				continue
			}
			ans, err := c.Drv.Call(map[string]interface{}{"op": "select", "possible": possible, "configured": configured, "parent": pf.Parent, "internal": internal})
			if err != nil {
				return nil
			}
			want, _ := ans["loc"].(string)
			if want != pf.Loc {
				fails = append(fails, Failure{Channel: "L1.location", Classifier: "unclassified",
					What:  fmt.Sprintf("%s.%s (written %s) is fetched from %q; the rule gives %q (possible %v, priorities %v, parent %q)", pf.Type, pf.Field, pf.Via, pf.Loc, want, possible, configured, pf.Parent),
					Input: in, Expected: want, Observed: map[string]interface{}{"location": pf.Loc, "plan": PlanText(fc.Out.Plans)}})
			}
		}
	}
	return fails
}

var gwOwnSchema *ast.Schema

// gatewayOwnSchema: what the gateway adds of its own (Node and Query.node)
func gatewayOwnSchema() *ast.Schema {
	if gwOwnSchema == nil {
		gwOwnSchema, _ = gqlparser.LoadSchema(&ast.Source{Input: internalSDL})
	}
	return gwOwnSchema
}

func init() { Runners["C20"] = c20{} }
