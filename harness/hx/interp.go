package hx

// scratch reference interpreter: executes a GraphQL document against a schema and an in-memory store.

import (
	"fmt"
	"sort"

	"github.com/vektah/gqlparser/v2/ast"
)

// Ref is a reference to an object in the store
type Ref struct{ Type, ID string }

// Store: type -> id -> field -> value (scalar | Ref | []interface{} | nil)
type Store map[string]map[string]map[string]interface{}

func Exec(schema *ast.Schema, store Store, doc *ast.QueryDocument, opName string, vars map[string]interface{}) (map[string]interface{}, error) {
	var op *ast.OperationDefinition
	if len(doc.Operations) == 1 {
		op = doc.Operations[0]
	} else {
		op = doc.Operations.ForName(opName)
	}
	if op == nil {
		return nil, fmt.Errorf("no operation %q", opName)
	}
	root := "Query"
	if op.Operation == ast.Mutation {
		root = "Mutation"
	}
	e := &execer{schema: schema, store: store, doc: doc, vars: vars}
	return e.object(Ref{root, ""}, op.SelectionSet), nil
}

type execer struct {
	schema *ast.Schema
	store  Store
	doc    *ast.QueryDocument
	vars   map[string]interface{}
}

func (e *execer) included(ds ast.DirectiveList) bool {
	for _, d := range ds {
		if d.Name == "skip" || d.Name == "include" {
			v, _ := d.Arguments.ForName("if").Value.Value(e.vars)
			b, _ := v.(bool)
			if d.Name == "skip" && b {
				return false
			}
			if d.Name == "include" && !b {
				return false
			}
		}
	}
	return true
}

func (e *execer) typeApplies(cond string, obj string) bool {
	if cond == "" || cond == obj {
		return true
	}
	def := e.schema.Types[cond]
	if def == nil {
		return false
	}
	for _, p := range e.schema.GetPossibleTypes(def) {
		if p.Name == obj {
			return true
		}
	}
	return false
}

type collected struct {
	key    string
	fields []*ast.Field
}

func (e *execer) collect(obj string, ss ast.SelectionSet, out *[]*collected, idx map[string]int, visited map[string]bool) {
	for _, sel := range ss {
		switch sel := sel.(type) {
		case *ast.Field:
			if !e.included(sel.Directives) {
				continue
			}
			k := sel.Alias
			if k == "" {
				k = sel.Name
			}
			if i, ok := idx[k]; ok {
				(*out)[i].fields = append((*out)[i].fields, sel)
			} else {
				idx[k] = len(*out)
				*out = append(*out, &collected{k, []*ast.Field{sel}})
			}
		case *ast.InlineFragment:
			if !e.included(sel.Directives) || !e.typeApplies(sel.TypeCondition, obj) {
				continue
			}
			e.collect(obj, sel.SelectionSet, out, idx, visited)
		case *ast.FragmentSpread:
			if !e.included(sel.Directives) || visited[sel.Name] {
				continue
			}
			visited[sel.Name] = true
			def := e.doc.Fragments.ForName(sel.Name)
			if def == nil || !e.typeApplies(def.TypeCondition, obj) {
				continue
			}
			e.collect(obj, def.SelectionSet, out, idx, visited)
		}
	}
}

func (e *execer) object(ref Ref, ss ast.SelectionSet) map[string]interface{} {
	var cs []*collected
	e.collect(ref.Type, ss, &cs, map[string]int{}, map[string]bool{})
	res := map[string]interface{}{}
	for _, c := range cs {
		f := c.fields[0]
		if f.Name == "__typename" {
			res[c.key] = ref.Type
			continue
		}
		var sub ast.SelectionSet
		for _, ff := range c.fields {
			sub = append(sub, ff.SelectionSet...)
		}
		var raw interface{}
		if (ref.Type == "Query") && f.Name == "node" {
			idv, _ := f.Arguments.ForName("id").Value.Value(e.vars)
			id, _ := idv.(string)
			raw = nil
			// only types this schema knows as implementing Node
			names := []string{}
			for t := range e.store {
				names = append(names, t)
			}
			sort.Strings(names)
			for _, t := range names {
				if _, ok := e.store[t][id]; ok {
					if def := e.schema.Types[t]; def != nil && e.typeApplies("Node", t) {
						raw = Ref{t, id}
					}
				}
			}
		} else {
			rec := e.store[ref.Type][ref.ID]
			raw = rec[f.Name]
			if f.Name == "id" && ref.ID != "" {
				raw = ref.ID
			}
		}
		res[c.key] = e.value(raw, sub)
	}
	return res
}

func (e *execer) value(raw interface{}, sub ast.SelectionSet) interface{} {
	switch v := raw.(type) {
	case nil:
		return nil
	case Ref:
		return e.object(v, sub)
	case []interface{}:
		out := make([]interface{}, len(v))
		for i, x := range v {
			out[i] = e.value(x, sub)
		}
		return out
	default:
		return v
	}
}
