package hx

import (
	"context"
	"encoding/json"
	"fmt"
	"sort"
	"strings"
	"time"

	"github.com/nautilus/gateway"
	"github.com/nautilus/graphql"
)

// ---------------------------------------------------------------------------------------------
// C05 — stitching does not depend on reply order or scheduling (controlled schedules, -race)
// ---------------------------------------------------------------------------------------------

type c05 struct{}

var c05Queries = []string{
	`{ me { firstName lastName nick } }`,
	`{ allUsers { firstName lastName nick } }`,
	`{ allUsers { firstName friends { lastName nick } photos { url likes } } }`,
	`{ allPhotos { url likes owner { firstName nick } likedBy { firstName } } }`,
	`{ me { friends { friends { lastName firstName } } } topPhoto { likes owner { nick } } }`,
	`{ pets { name ... on Cat { toys lives } ... on Dog { barks owner { nick } } } }`,
	`{ ... on Query { ... on Query { allUsers { x1: firstName } } } allUsers { nick lastName } }`,
	`{ allUsers { firstName photos { url likes } } }`,
	`{ allUsers { photos { likedBy { firstName } likes } friends { photos { likes } } } }`,
}

var schedPolicies = []string{"random", "lifo", "fifo", "deep-first", "shallow-first", "calls-first", "push-first", "starve-collector", "starve-collector", "spawn-last", "spawn-last"}

func (c05) Cases(tier string) int {
	// the last case is the canonical replay of KF-D37
	switch tier {
	case "thorough":
		return 1200 + 1
	case "search":
		return 500 + 1
	}
	return 140 + 1
}

// d37: a gateway in its default configuration with ONE request middleware and a list fan-out, in a process of its
// own under the race detector: the client library's WithMiddlewares writes the queryer it is called on, executeOneStep
// calls it for every execution of a step, the executions of a step for the objects of a list run at the same time.
func d37(c *Ctx) CaseResult {
	res := CaseResult{ID: "corpus:D37-default-queryers-request-middleware", Key: "D37", Nontrivial: true, Features: []string{"net-twin-child"}}
	tc := NetTwinCase{Query: `{ allUsers { firstName lastName nick } }`, StoreSeed: 5, ListLen: 24, ReqMws: 1}
	for try := 0; try < 3; try++ {
		stdout, stderr, clean := NetProbeChild(tc, 60*time.Second)
		if clean {
			continue // no race observed this time (or the harness is built without the race detector)
		}
		cl := ClassifyCrash(stderr)
		what := "a gateway with default (network) queryers and a request middleware: the process died"
		if !strings.Contains(stderr, "DATA RACE") && !strings.Contains(stderr, "panic") && !strings.Contains(stderr, "fatal error") {
			// the child ended with failures of the comparison, not with a crash
			cl = "unclassified"
			what = "a gateway with default (network) queryers and a request middleware differs from the in-process twin: " + truncate(stdout, 600)
		}
		res.Fails = []Failure{{Channel: "crash", Classifier: cl, What: what, Input: tc, Observed: truncate(stderr, 3000)}}
		return res
	}
	return res
}

func (c05) Rule() string {
	return "L2.insert: 40 generated sequences of executorInsertObject calls per case (random targets and paths that mostly follow the target's structure, and executor-style message sets in parents-first and in deliberately wrong orders) compared with the Lean stitching model Ins.apply (value or index of the first rejected message); then fixed fan-out queries and generated queries over fixed and random federations, optionally with 1-5 injected failures (addressed by join id so that they do not depend on the schedule; several calls failing alike and others differently); each case is executed once unscheduled and then under 11 (quick) / 33 (thorough) controlled schedules: every service call and every executor goroutine about to publish its result parks at a gate (under the starve-collector policy also the collector, each time it has received a result) and a controller releases one parked goroutine at a time by policy {random, LIFO, FIFO, deepest path first, shallowest first, calls first, publishers first, starve the collector so that the result channel stays full, hold goroutines that are about to start a dependent step}; gates: service calls, the publish site, the spawn site and (when starving it) the collector; list fan-out up to 18; the response data and the multiset of error messages must be identical in all runs, and the error messages of the same request sent through the HTTP handler must be that multiset; the harness is built with -race and a reported race kills the worker (attributed to the case); non-trivial = at least 3 service calls; distinct = distinct (federation, query, faults); one case in twelve with a list of 33-257 entries; one case in five a net-twin case (default network queryers over an in-process transport, optionally cached plans and 2-3 concurrent requests, no request middlewares) under the race detector; the last case is the canonical replay of KF-D37 in a child process"
}

func errMultiset(err error) []string {
	var msgs []string
	if el, ok := err.(graphql.ErrorList); ok {
		for _, e := range el {
			msgs = append(msgs, e.Error())
		}
	} else if err != nil {
		msgs = append(msgs, err.Error())
	}
	sort.Strings(msgs)
	return msgs
}

// HTTPErrorsFail sends the request of a faulty case through the HTTP handler: every error the execution reports must be
// in the response with its message (whatever kind of Go error it is, whatever paths and messages the errors share)
func HTTPErrorsFail(in FedInput, store Store, want []string) *Failure {
	f, err := NewFed(in.Spec, store)
	if err != nil {
		return nil
	}
	InstallFaults(f, in.Faults, 0)
	body, _ := json.Marshal(map[string]interface{}{"query": in.Query, "variables": in.Vars, "operationName": in.OpName})
	rec, p := HTTPCase{Method: "POST", Target: "/graphql", ContentType: "application/json", Body: string(body)}.Serve(f.GW)
	if p != nil {
		return &Failure{Channel: "crash", Classifier: "unclassified", What: fmt.Sprint("the HTTP handler panicked: ", p), Input: in}
	}
	var parsed struct {
		Errors []struct {
			Message string `json:"message"`
		} `json:"errors"`
	}
	json.Unmarshal(rec.Body.Bytes(), &parsed)
	var msgs []string
	for _, e := range parsed.Errors {
		msgs = append(msgs, e.Message)
	}
	sort.Strings(msgs)
	if fmt.Sprint(msgs) != fmt.Sprint(want) {
		return &Failure{Channel: "L0.http-errors", Classifier: "unclassified",
			What:  "the errors in the HTTP response are not the errors the execution reports: " + diffHint(fmt.Sprint(want), fmt.Sprint(msgs)),
			Input: in, Expected: want, Observed: map[string]interface{}{"errors": msgs, "body": truncate(rec.Body.String(), 600)}}
	}
	return nil
}

func (c05) Run(c *Ctx, i int) CaseResult {
	if i == (c05{}).Cases(c.Tier)-1 {
		return d37(c)
	}
	r := c.Rand(i + 11000000)
	var in FedInput
	if r.Intn(3) != 0 {
		in = fixedIn(c05Queries[r.Intn(len(c05Queries))])
		in.StoreSeed = r.Int63n(1 << 20)
	} else {
		in, _ = GenFedInput(c, i+11000000, "C05")
		in.OddIDs = false
	}
	if r.Intn(3) == 0 {
		in.ListLen = 2 + r.Intn(6)
	}
	if r.Intn(4) == 0 {
		in.ListLen = 11 + r.Intn(8) // more simultaneous results than the result channel holds
	}
	if r.Intn(12) == 0 {
		in.ListLen = []int{33, 64, 65, 100, 129, 257}[r.Intn(6)] // long lists: whatever is done per entry is done many times at once
	}
	res := CaseResult{ID: fmt.Sprintf("gen:%d", i)}
	// L2: the stitching model against executorInsertObject (40 generated insertion sequences per case)
	insFeat := map[string]bool{}
	for k := 0; k < 40; k++ {
		fails, feats := InsertCorr(c, c.Rand(i*1000+k+77000000))
		for _, f := range feats {
			insFeat[f] = true
		}
		if len(fails) > 0 {
			res.Nontrivial = true
			res.Fails = fails
			return res
		}
	}
	if i%5 == 1 {
		// the same kind of request through a gateway in its default configuration (the library's network queryers over
		// an in-process transport), under the race detector like everything here; no request middlewares (KF-D37)
		tc := NetTwinCase{Query: c05Queries[r.Intn(len(c05Queries))], StoreSeed: 5, ListLen: []int{0, 3, 12, 30}[r.Intn(4)], Cached: r.Intn(2) == 0, Repeat: 1 + r.Intn(3), Introspected: r.Intn(3) == 0}
		if nf := RunNetTwin(tc); len(nf) > 0 {
			res.Nontrivial = true
			res.Fails = nf
			return res
		}
		insFeat["net-twin"] = true
	}
	ref, err := RunFed(c, in, 8*time.Second)
	if err != nil {
		res.Fails = append(res.Fails, Failure{Channel: "harness", Classifier: "harness-error", What: err.Error(), Input: in})
		return res
	}
	if ref.Invalid != "" {
		res.Skipped = "invalid-query:" + ref.Invalid
		return res
	}
	if reg := InKnownRegion(ref.Classes); reg != "" {
		res.Skipped = "known-region:" + reg
		return res
	}
	if ref.Out.PlanErr || ref.Out.PlanHung || ref.Out.Hung || ref.Out.Panicked != nil {
		res.Skipped = "not-executed"
		return res
	}
	// failures addressed by join id
	if r.Intn(3) == 0 {
		calls := listCalls(ref.Fed)
		var dep []callKey
		for _, k := range calls {
			if k.id != "root" {
				dep = append(dep, k)
			}
		}
		if len(dep) > 0 {
			// one failing call, or several (some failing alike, some differently: which errors end up next to each
			// other in the list then depends on the order of the replies, and nothing reported may depend on it)
			r.Shuffle(len(dep), func(a, b int) { dep[a], dep[b] = dep[b], dep[a] })
			nf := 1
			if r.Intn(2) == 0 {
				nf = 2 + r.Intn(4)
			}
			seenKey := map[callKey]bool{}
			for _, k := range dep {
				if len(in.Faults) >= nf {
					break
				}
				if seenKey[k] {
					continue
				}
				seenKey[k] = true
				in.Faults = append(in.Faults, FaultSpec{Service: k.svc, MatchID: k.id, Kind: []string{"transport", "transport", "gqlerrors", "gqlerrors+data", "gqlerrors+null", "gqlerrors+null"}[r.Intn(6)]})
			}
			ref, err = RunFed(c, in, 8*time.Second)
			if err != nil || ref.Out.Hung {
				res.Skipped = "not-executed"
				return res
			}
		}
	}
	// L2: the executor's data path against the sequential executor model (whose result every schedule must reach)
	xf, xnote := ExecCorr(c, in)
	if len(xf) > 0 {
		res.Fails = xf
		return res
	}
	ncalls := ref.Fed.TotalCalls()
	res.Key = fmt.Sprint(in.Spec.SDLs, in.Query, in.StoreSeed, in.ListLen, in.Faults)
	res.Nontrivial = ncalls >= 3
	base := Canon(ref.Out.Data)
	baseErrs := fmt.Sprint(errMultiset(ref.Out.Err))
	nsched := 11
	if c.Tier == "thorough" || c.Tier == "search" {
		nsched = 33
	}
	if in.ListLen > 32 {
		// long lists are not run under the schedule controller (one release at a time, hundreds of parked goroutines:
		// minutes on a busy machine — a harness timeout there was a false alarm, see DESIGN 12.4d); they are repeated
		// unscheduled, under the race detector, and compared with the first run
		nsched = 0
		for k := 0; k < 3; k++ {
			f, err := NewFed(in.Spec, ref.Store)
			if err != nil {
				break
			}
			InstallFaults(f, in.Faults, 0)
			out := runWith(f, in, 60*time.Second)
			if out.Hung || out.Panicked != nil {
				res.Fails = append(res.Fails, Failure{Channel: "hang", Classifier: "unclassified", What: fmt.Sprintf("a request with a list of %d entries: hung=%v panic=%v", in.ListLen, out.Hung, out.Panicked), Input: in})
				return res
			}
			if got := Canon(out.Data); got != base || fmt.Sprint(errMultiset(out.Err)) != baseErrs {
				res.Fails = append(res.Fails, Failure{Channel: "L0.schedule", Classifier: "unclassified",
					What: fmt.Sprintf("repetition %d of a request with a list of %d entries gives another response than the first run", k, in.ListLen), Input: in, Expected: ref.Out.Data, Observed: out.Data})
				return res
			}
		}
	}
	released, traced, inconclusive := 0, 0, 0
	for k := 0; k < nsched; k++ {
		policy := schedPolicies[k%len(schedPolicies)]
		sc := NewSched(policy, c.Seed*977+int64(i)*131+int64(k))
		fc := &FedCase{In: in}
		var rec *TraceRec
		if c.Tier == "quick" || k%3 == 0 {
			// every scheduled execution of the quick tier, every third one otherwise, is recorded and replayed
			rec = &TraceRec{}
		}
		f, err := NewFed(in.Spec, ref.Store, gateway.WithLogger(SchedLogger{S: sc, GateCollector: policy == "starve-collector", Rec: rec}))
		if err != nil {
			res.Fails = append(res.Fails, Failure{Channel: "harness", Classifier: "harness-error", What: err.Error(), Input: in})
			return res
		}
		fc.Fed = f
		InstallFaults(f, in.Faults, 0)
		InstallSched(f, sc)
		sc.Start()
		out := runWith(f, in, 20*time.Second)
		sc.Stop()
		released += len(sc.Trace)
		if out.Hung {
			res.Fails = append(res.Fails, Failure{Channel: "hang", Classifier: "unclassified", What: fmt.Sprintf("Execute did not return under schedule policy %s", policy), Input: in,
				Observed: map[string]interface{}{"schedule": sc.Trace}})
			return res
		}
		if out.Panicked != nil {
			res.Fails = append(res.Fails, Failure{Channel: "crash", Classifier: "unclassified", What: fmt.Sprintf("panic: %v", out.Panicked), Input: in, Observed: map[string]interface{}{"schedule": sc.Trace}})
			return res
		}
		// L1: the observed execution must be a run of the executor machine the theorems are about
		if what, detail, terr := TraceCorr(c, rec, -1); terr != nil {
			res.Fails = append(res.Fails, Failure{Channel: "harness", Classifier: "harness-error", What: terr.Error(), Input: in})
			return res
		} else if what != "" {
			detail["schedule"] = sc.Trace
			res.Fails = append(res.Fails, Failure{Channel: "L1.trace", Classifier: "unclassified", What: what + fmt.Sprintf(" (policy %s)", policy), Input: in, Observed: detail})
			return res
		} else if detail != nil && detail["inconclusive"] == nil {
			traced++
		} else if detail != nil {
			inconclusive++
		}
		if got, gotErrs := Canon(out.Data), fmt.Sprint(errMultiset(out.Err)); got != base || gotErrs != baseErrs {
			res.Fails = append(res.Fails, Failure{Channel: "L0.schedule", Classifier: "unclassified",
				What:  fmt.Sprintf("the response depends on the schedule (policy %s, %d releases): it differs from the unscheduled run", policy, len(sc.Trace)),
				Input: in, Expected: map[string]interface{}{"data": ref.Out.Data, "errors": errMultiset(ref.Out.Err)},
				Observed: map[string]interface{}{"data": out.Data, "errors": errMultiset(out.Err), "schedule": sc.Trace}})
			return res
		}
	}
	if len(in.Faults) > 0 {
		if hf := HTTPErrorsFail(in, ref.Store, errMultiset(ref.Out.Err)); hf != nil {
			res.Fails = append(res.Fails, *hf)
			return res
		}
	}
	res.Counters = map[string]int{"service_calls": ncalls, "schedules": nsched, "releases": released, "traces_accepted_by_machine": traced, "traces_inconclusive": inconclusive, "exec_model_" + xnote: 1}
	res.Features = append(FeatList(insFeat), fmt.Sprintf("faults-%d", len(in.Faults)))
	if i%23 == 0 {
		res.Sample = map[string]interface{}{"query": in.Query, "faults": in.Faults, "calls": ncalls, "schedules": nsched, "releases": released}
	}
	return res
}

// runWith executes through an already built federation.
func runWith(f *Fed, in FedInput, timeout time.Duration) Outcome {
	ch := make(chan Outcome, 1)
	go func() {
		defer func() {
			if r := recover(); r != nil {
				ch <- Outcome{Panicked: r}
			}
		}()
		rc := &gateway.RequestContext{Context: context.Background(), Query: in.Query, OperationName: in.OpName, Variables: in.Vars, CacheKey: f.CacheKey}
		plans, err := f.GW.GetPlans(rc)
		if err != nil {
			ch <- Outcome{Err: err, PlanErr: true}
			return
		}
		d, e := f.GW.Execute(rc, plans)
		ch <- Outcome{Data: d, Err: e, Plans: plans}
	}()
	return awaitOutcome(ch, timeout)
}

func init() { Runners["C05"] = c05{} }
