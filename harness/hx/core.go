package hx

import (
	"bufio"
	"encoding/json"
	"fmt"
	"io"
	"math/rand"
	"os"
	"os/exec"
	"sort"
	"sync"
)

// Failure is one violation candidate found by a runner; Classifier names the decidable region it falls
// into (matched against KNOWN_FINDINGS.json by ./check), Channel says which correspondence level differed.
type Failure struct {
	Channel    string      `json:"channel"` // L0.<oracle> | L1.<artefact> | L2.<component> | crash | hang
	Classifier string      `json:"classifier"`
	What       string      `json:"what"`
	Input      interface{} `json:"input,omitempty"`
	Expected   interface{} `json:"expected,omitempty"`
	Observed   interface{} `json:"observed,omitempty"`
}

// CaseResult is what one case reports; one JSON line per case travels from worker to parent.
type CaseResult struct {
	Index      int         `json:"i"`
	ID         string      `json:"id"`
	Key        string      `json:"key,omitempty"` // identity for distinctness
	Nontrivial bool        `json:"nt"`
	Features   []string    `json:"feat,omitempty"`
	Skipped    string      `json:"skipped,omitempty"`
	Fails      []Failure   `json:"fails,omitempty"`
	Sample     interface{} `json:"sample,omitempty"`
	Counters   map[string]int `json:"cnt,omitempty"`
}

// Ctx is handed to runners.
type Ctx struct {
	Tier string
	Seed int64
	Drv  *Drv
}

// Rand derives the PRNG of case i from the run seed.
func (c *Ctx) Rand(i int) *rand.Rand {
	return rand.New(rand.NewSource(c.Seed*1000003 + int64(i)*7919 + 17))
}

// Runner is one property's correspondence/exploration procedure.
type Runner interface {
	// Cases returns how many generated cases the tier runs; corpus cases come first and are included.
	Cases(tier string) int
	// Run executes case i (deterministic in (seed, i)).
	Run(c *Ctx, i int) CaseResult
	// Rule describes generation and what counts as non-trivial/distinct.
	Rule() string
}

var Runners = map[string]Runner{}

// Drv is a client of the Lean line driver.
type Drv struct {
	cmd *exec.Cmd
	in  io.WriteCloser
	out *bufio.Reader
	mu  sync.Mutex
}

func StartDrv(path string) (*Drv, error) {
	cmd := exec.Command(path)
	in, err := cmd.StdinPipe()
	if err != nil {
		return nil, err
	}
	out, err := cmd.StdoutPipe()
	if err != nil {
		return nil, err
	}
	cmd.Stderr = os.Stderr
	if err := cmd.Start(); err != nil {
		return nil, err
	}
	return &Drv{cmd: cmd, in: in, out: bufio.NewReaderSize(out, 1<<22)}, nil
}

// Call sends one request object and decodes the one-line answer.
func (d *Drv) Call(req map[string]interface{}) (map[string]interface{}, error) {
	d.mu.Lock()
	defer d.mu.Unlock()
	b, err := json.Marshal(req)
	if err != nil {
		return nil, err
	}
	if _, err := d.in.Write(append(b, '\n')); err != nil {
		return nil, err
	}
	line, err := d.out.ReadBytes('\n')
	if err != nil {
		return nil, fmt.Errorf("driver: %w", err)
	}
	var res map[string]interface{}
	dec := json.NewDecoder(bytesReader(line))
	dec.UseNumber()
	if err := dec.Decode(&res); err != nil {
		return nil, fmt.Errorf("driver answer %q: %w", string(line), err)
	}
	if b, ok := res["bad-op"]; ok {
		return nil, fmt.Errorf("driver: bad op %v", b)
	}
	if b, ok := res["bad-json"]; ok {
		return nil, fmt.Errorf("driver: bad json %v", b)
	}
	return res, nil
}

func (d *Drv) Close() {
	d.in.Close()
	d.cmd.Wait()
}

type byteReader struct {
	b []byte
	i int
}

func (r *byteReader) Read(p []byte) (int, error) {
	if r.i >= len(r.b) {
		return 0, io.EOF
	}
	n := copy(p, r.b[r.i:])
	r.i += n
	return n, nil
}
func bytesReader(b []byte) io.Reader { return &byteReader{b: b} }

// Canon renders any JSON-like value canonically (sorted keys, numbers normalised).
func Canon(v interface{}) string {
	b, _ := json.Marshal(normalise(v))
	return string(b)
}

func normalise(v interface{}) interface{} {
	switch v := v.(type) {
	case map[string]interface{}:
		out := map[string]interface{}{}
		for k, x := range v {
			out[k] = normalise(x)
		}
		return out
	case []interface{}:
		out := make([]interface{}, len(v))
		for i, x := range v {
			out[i] = normalise(x)
		}
		return out
	case []map[string]interface{}:
		out := make([]interface{}, len(v))
		for i, x := range v {
			out[i] = normalise(x)
		}
		return out
	case json.Number:
		if i, err := v.Int64(); err == nil {
			return i
		}
		f, _ := v.Float64()
		return f
	case int:
		return int64(v)
	case int32:
		return int64(v)
	case float64:
		if v == float64(int64(v)) {
			return int64(v)
		}
		return v
	case *string:
		if v == nil {
			return nil
		}
		return *v
	default:
		return v
	}
}

// SortedKeys of a string-keyed map.
func SortedKeys(m map[string]interface{}) []string {
	ks := make([]string, 0, len(m))
	for k := range m {
		ks = append(ks, k)
	}
	sort.Strings(ks)
	return ks
}

func FeatList(m map[string]bool) []string {
	var l []string
	for k, v := range m {
		if v {
			l = append(l, k)
		}
	}
	sort.Strings(l)
	return l
}

// numOf reads a number of a driver answer (decoded with UseNumber)
func numOf(v interface{}) float64 {
	switch x := v.(type) {
	case json.Number:
		f, _ := x.Float64()
		return f
	case float64:
		return x
	case int:
		return float64(x)
	}
	return 0
}
