package hx

import (
	"fmt"
	"math/rand"
	"runtime"
	"strings"
	"time"

	"github.com/nautilus/gateway"
	"github.com/vektah/gqlparser/v2"
	"github.com/vektah/gqlparser/v2/ast"
)

func countSteps(steps []*gateway.QueryPlanStep) int {
	n := 0
	for _, s := range steps {
		n += 1 + countSteps(s.Then)
	}
	return n
}

// ---------------------------------------------------------------------------------------------
// C08 — planning is total: always returns, with a plan for every valid query
// ---------------------------------------------------------------------------------------------

type c08 struct{}

type planCase struct {
	ID    string
	Query string
	Prio  []string
	Valid bool // expected to validate against the merged schema
}

func manyBranches(n int) string {
	var sb strings.Builder
	sb.WriteString("{ ")
	for i := 0; i < n; i++ {
		fmt.Fprintf(&sb, "a%d: me { firstName lastName } ", i)
	}
	sb.WriteString("}")
	return sb.String()
}

func manyBranchesOneStep(n int) string {
	// one step (allUsers at A) with n cross-service branch points beneath it
	var sb strings.Builder
	sb.WriteString("{ allUsers { ")
	for i := 0; i < n; i++ {
		fmt.Fprintf(&sb, "f%d: friends { lastName } ", i)
	}
	sb.WriteString("} }")
	return sb.String()
}

func deepFragments(n int) string {
	var sb strings.Builder
	sb.WriteString("{ me { ...F0 } } ")
	for i := 0; i < n; i++ {
		fmt.Fprintf(&sb, "fragment F%d on User { firstName ... on User { ...F%d } } ", i, i+1)
	}
	fmt.Fprintf(&sb, "fragment F%d on User { lastName nick }", n)
	return sb.String()
}

func deepNesting(n int) string {
	q := "lastName"
	for i := 0; i < n; i++ {
		q = "friends { firstName " + q + " }"
	}
	return "{ me { " + q + " } }"
}

// KindsFed is a federation over the other kinds of type a schema may hold — unions (one declared by one service,
// one by both), enums, an input object, a custom scalar, an object that is no Node and an interface besides Node —
// for the planning-only checks: queries on it are generated from its own merged schema
func KindsFed() FedSpec {
	a := `interface Node { id: ID! }
interface Named { name: String }
scalar Date
enum Role { ADMIN MEMBER }
input Paging { first: Int after: String }
union SearchResult = User | Photo
union Media = Photo | Album
type Query { node(id: ID!): Node search: [SearchResult] best: SearchResult me: User settings: Settings feed: [Media] named: [Named] board: [[Cell!]!]! cube: [[[Cell]]] theInventoryOfEverythingThisOrganisationHasEverOwnedOrLeasedSince1970: OrganisationInventoryReportingPeriodAggregateConnectionEdge }
type Cell { value: Int owner: User }
type OrganisationInventoryReportingPeriodAggregateConnectionEdge implements Node { id: ID! totalNumberOfItemsAcquiredDuringTheReportingPeriod: Int owner: User }
type User implements Node & Named { id: ID! name: String firstName: String! role: Role joined: Date }
type Photo implements Node { id: ID! url: String }
type Album implements Node & Named { id: ID! name: String title: String }
type Settings { theme: String owner: User since: Date }
`
	b := `interface Node { id: ID! }
scalar Date
enum Role { ADMIN MEMBER }
union Media = Photo | Album
type Query { node(id: ID!): Node allPhotos: [Photo] latest: Media }
type User implements Node { id: ID! lastName: String photos: [Photo] favorite: Media }
type Photo implements Node { id: ID! likes: Int owner: User taken: Date }
type Album implements Node { id: ID! photos: [Photo] cover: Photo }
type OrganisationInventoryReportingPeriodAggregateConnectionEdge implements Node { id: ID! totalNumberOfItemsWrittenOffDuringTheReportingPeriodAndNotReplaced: Int }
`
	return FedSpec{SDLs: map[string]string{"A": a, "B": b}, Order: []string{"A", "B"}, Owners: map[string][]string{}}
}

var kindsFixed = []planCase{
	{ID: "kinds-union-typename", Query: `{ search { __typename } }`, Valid: true},
	{ID: "kinds-union-typename-object", Query: `{ best { __typename ... on User { lastName } } }`, Valid: true},
	{ID: "kinds-union-named-fragment", Query: `{ feed { ...M } } fragment M on Media { __typename ... on Album { title cover { likes } } }`, Valid: true},
	{ID: "kinds-union-both-services", Query: `{ latest { __typename ... on Photo { url likes } } me { favorite { __typename } } }`, Valid: true},
	{ID: "kinds-interface-typename", Query: `{ named { __typename name ... on User { lastName role joined } } }`, Valid: true},
	{ID: "kinds-list-of-lists", Query: `{ board { value } cube { value owner { lastName } } }`, Valid: true},
	// names as generated schemas have them: type name plus field name well beyond 64 and 128 characters
	{ID: "kinds-long-names", Query: `{ theInventoryOfEverythingThisOrganisationHasEverOwnedOrLeasedSince1970 { totalNumberOfItemsAcquiredDuringTheReportingPeriod totalNumberOfItemsWrittenOffDuringTheReportingPeriodAndNotReplaced owner { lastName } } }`, Valid: true},
	{ID: "kinds-plain-object", Query: `{ settings { theme since owner { lastName role } } }`, Valid: true},
}

func c08Fixed() []planCase {
	var cs []planCase
	for _, n := range []int{0, 1, 49, 50, 51, 100, 300} {
		cs = append(cs, planCase{ID: fmt.Sprintf("branch-points-%d", n), Query: manyBranches(n + 1), Valid: true})
		cs = append(cs, planCase{ID: fmt.Sprintf("branch-points-one-step-%d", n), Query: manyBranchesOneStep(n + 1), Valid: true})
	}
	for _, n := range []int{1, 5, 12, 40} {
		cs = append(cs, planCase{ID: fmt.Sprintf("fragment-depth-%d", n), Query: deepFragments(n), Valid: true})
		cs = append(cs, planCase{ID: fmt.Sprintf("nesting-depth-%d", n), Query: deepNesting(n), Valid: true})
	}
	cs = append(cs,
		planCase{ID: "D03-two-planning-errors", Query: `{ me { ... on User { nope1 } } allUsers { nope2 } }`, Valid: false},
		planCase{ID: "D04-untyped-inline", Query: `{ allUsers { ... { firstName } } }`, Valid: true},
		planCase{ID: "D26-inline-priority", Query: `{ me { ... on User { lastName } } }`, Prio: []string{"C"}, Valid: true},
		planCase{ID: "syntax-error", Query: `{ me { firstName `, Valid: false},
		planCase{ID: "empty", Query: ``, Valid: true},
		planCase{ID: "unknown-field", Query: `{ me { nope } }`, Valid: false},
		planCase{ID: "fragment-cycle", Query: `{ me { ...A } } fragment A on User { ...B } fragment B on User { ...A }`, Valid: false},
		planCase{ID: "undefined-fragment", Query: `{ me { ...Nope } }`, Valid: false},
		planCase{ID: "introspection", Query: `{ __schema { types { name } } __type(name: "User") { name } }`, Valid: true},
		planCase{ID: "subscription-kind", Query: `subscription { me { firstName } }`, Valid: false},
	)
	cs = append(cs, kindsFixed...)
	return cs
}

func (c08) Cases(tier string) int {
	switch tier {
	case "thorough":
		return len(c08Fixed()) + 6000
	case "search":
		return len(c08Fixed()) + 2000
	}
	return len(c08Fixed()) + 700
}

func (c08) Rule() string {
	return "fixed cases (1-301 cross-service branch points spread over root fields and inside one step, fragment chains and field nesting of depth 1-40, queries on a federation with unions / enums / a custom scalar / a plain object / a second interface / lists of lists, two simultaneous planning errors, the known ping-pong configuration, syntax errors, undefined/cyclic fragments, introspection) then generated valid queries, single-token mutations of valid queries (mostly invalid) and random byte strings, over fixed and random federations with priorities, every fifth generated case a query generated from the merged schema of the federation of the other kinds of type (unions declared by one and by both services, __typename on union- and interface-typed fields); planning only, under a 5 s watchdog in a worker process; checked: returns, no panic, a plan iff gqlparser validates the query against the captured merged schema, goroutine count back to its level afterwards; non-trivial = valid query with at least 2 steps or an invalid query; distinct = distinct (federation, priorities, query)"
}

const noiseAlphabet = "{}()[]:$@!.\"\\ abcdefquerymutationfragmenton#,\n\t0123456789"

var mutateTokens = []string{"{", "}", "(", ")", "...", "on", "fragment", "$", "@skip(if: true)", "nope", ":", "\"", "query", "id", "!"}

func (c08) Run(c *Ctx, i int) CaseResult {
	// L2: the routing table's own operations against Um (2 sequences per case): a lookup that fails makes planning fail
	for k := 0; k < 2; k++ {
		if uf := UrlMapCorr(c, c.Rand(i*10+k+66000000)); len(uf) > 0 {
			return CaseResult{ID: fmt.Sprintf("gen:%d", i), Nontrivial: true, Fails: uf}
		}
	}
	fixed := c08Fixed()
	var in FedInput
	var pc planCase
	kind := "fixed"
	if i < len(fixed) {
		pc = fixed[i]
		in = fixedIn(pc.Query)
		in.Spec.Priorities = pc.Prio
		if strings.HasPrefix(pc.ID, "kinds-") {
			in.Spec = KindsFed()
		}
	} else if i%5 == 4 {
		// the federation of the other kinds of type: queries generated from its own merged schema
		r := c.Rand(i + 13500000)
		kind = "kinds"
		in = FedInput{Spec: KindsFed(), StoreSeed: 5}
		if r.Intn(3) == 0 {
			in.Spec.Priorities = [][]string{{"B"}, {"A"}, {"B", "A"}}[r.Intn(3)]
		}
		g := &QGen{R: r, Schema: kindsSchema(), F: QFeat{Inline: true, Untyped: true, Named: r.Intn(2) == 0, Directives: r.Intn(3) == 0, CompositeDirectives: true,
			Typename: true, IDHeavy: r.Intn(2) == 0, Depth: 2 + r.Intn(2)}}
		in.Query = g.Query("")
		pc = planCase{ID: fmt.Sprintf("%s:%d", kind, i), Query: in.Query, Prio: in.Spec.Priorities}
	} else {
		r := c.Rand(i + 13000000)
		var feats map[string]bool
		in, feats = GenFedInput(c, i+13000000, "C08")
		_ = feats
		switch r.Intn(5) {
		case 0, 1, 2:
			kind = "generated"
		case 3:
			kind = "mutated"
			toks := strings.Fields(in.Query)
			if len(toks) > 0 {
				k := r.Intn(len(toks))
				switch r.Intn(3) {
				case 0:
					toks[k] = mutateTokens[r.Intn(len(mutateTokens))]
				case 1:
					toks = append(toks[:k], toks[k+1:]...)
				default:
					toks = append(toks[:k], append([]string{mutateTokens[r.Intn(len(mutateTokens))]}, toks[k:]...)...)
				}
			}
			in.Query = strings.Join(toks, " ")
		default:
			kind = "noise"
			b := make([]byte, r.Intn(60))
			for j := range b {
				b[j] = noiseAlphabet[r.Intn(len(noiseAlphabet))]
			}
			in.Query = string(b)
		}
		pc = planCase{ID: fmt.Sprintf("%s:%d", kind, i), Query: in.Query, Prio: in.Spec.Priorities}
	}
	res := CaseResult{ID: pc.ID, Key: fmt.Sprint(in.Spec.SDLs, in.Spec.Priorities, in.Query), Features: []string{kind}}
	if i < len(fixed) {
		res.ID = "corpus:" + pc.ID
	}
	store := GenStore(c.Rand(1), false)
	f, err := NewFed(in.Spec, store)
	if err != nil {
		res.Fails = append(res.Fails, Failure{Channel: "harness", Classifier: "harness-error", What: err.Error(), Input: in})
		return res
	}
	// warm-up so that Merged is captured and lazily started goroutines exist
	f.Plan(`{ __typename }`, 5*time.Second)
	before := runtime.NumGoroutine()
	t0 := time.Now()
	plans, perr, hung, panicked := f.Plan(in.Query, 5*time.Second)
	dt := time.Since(t0)
	bad := func(channel, what string) {
		res.Fails = append(res.Fails, Failure{Channel: channel, Classifier: "unclassified", What: what, Input: in, Observed: map[string]interface{}{"error": ErrString(perr), "ms": dt.Milliseconds()}})
	}
	if hung {
		bad("hang", "planning did not return within 5s")
		return res
	}
	if panicked != nil {
		bad("crash", fmt.Sprintf("planning panicked: %v", panicked))
		return res
	}
	valid := false
	if f.Merged != nil {
		_, errs := gqlparser.LoadQuery(f.Merged, in.Query)
		valid = errs == nil
	}
	switch {
	case valid && perr != nil:
		bad("L0.plan-total", "the query is valid against the merged schema but planning failed: "+firstLine(perr.Error()))
	case !valid && perr == nil:
		bad("L0.plan-total", "the query does not validate against the merged schema but a plan was returned")
	}
	if valid && perr == nil && plans != nil && f.Locations != nil {
		// L1: the plan against the planner model (whose error cases Props.C08 classifies)
		if doc, errs := gqlparser.LoadQuery(f.Merged, in.Query); errs == nil {
			what, model, impl, err := PlanCorrRaw(c, doc, f.Locations, in.Spec.Priorities, in.Spec.Order, plans)
			if err != nil {
				res.Fails = append(res.Fails, Failure{Channel: "harness", Classifier: "harness-error", What: err.Error(), Input: in})
			} else if what != "" {
				res.Fails = append(res.Fails, Failure{Channel: "L1.plan", Classifier: "unclassified", What: what, Input: in, Expected: model,
					Observed: map[string]interface{}{"steps": impl, "plan": PlanText(plans)}})
			}
		}
	}
	if i < len(fixed) && pc.Valid != valid {
		bad("harness", fmt.Sprintf("fixed case expected valid=%v, the validator says %v", pc.Valid, valid))
	}
	nsteps := 0
	for _, p := range plans {
		if p.RootStep != nil {
			nsteps += countSteps(p.RootStep.Then)
		}
	}
	res.Nontrivial = !valid || nsteps >= 2
	res.Counters = map[string]int{"steps": nsteps, "valid": b2i(valid), "plan_ms": int(dt.Milliseconds())}
	// nothing left running
	deadline := time.Now().Add(3 * time.Second) // generous: the machine may be busy
	for runtime.NumGoroutine() > before && time.Now().Before(deadline) {
		time.Sleep(2 * time.Millisecond)
	}
	if g := runtime.NumGoroutine(); g > before {
		bad("L0.leak", fmt.Sprintf("%d goroutines before planning, %d a second after it returned", before, g))
	}
	if i%67 == 0 || i < 3 {
		q := in.Query
		if len(q) > 200 {
			q = q[:200] + "…"
		}
		res.Sample = map[string]interface{}{"query": q, "valid": valid, "steps": nsteps, "plan_ms": dt.Milliseconds(), "error": firstLine(ErrString(perr))}
	}
	return res
}

var kindsMerged *ast.Schema

// kindsSchema: the schema the gateway merges from KindsFed (captured once through the planner hook)
func kindsSchema() *ast.Schema {
	if kindsMerged == nil {
		f, err := NewFed(KindsFed(), GenStore(rand.New(rand.NewSource(1)), false))
		if err != nil {
			panic(err)
		}
		f.Plan(`{ __typename }`, 5*time.Second)
		if f.Merged == nil {
			panic("merged schema of KindsFed not captured")
		}
		kindsMerged = f.Merged
	}
	return kindsMerged
}

func b2i(b bool) int {
	if b {
		return 1
	}
	return 0
}

func init() { Runners["C08"] = c08{} }


