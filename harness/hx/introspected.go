package hx

import (
	"context"
	"fmt"

	"github.com/mitchellh/mapstructure"
	"github.com/nautilus/gateway"
	"github.com/nautilus/graphql"
	"github.com/vektah/gqlparser/v2/ast"
)

// IntrospectedSchema returns the schema of a service the way a gateway gets it in a deployment: by sending the
// introspection query to the service and rebuilding the schema from the reply (graphql.IntrospectAPI) instead of
// parsing SDL. The "service" is a gateway over the parsed schema alone, which answers introspection in-process.
// Schemas built this way carry no source positions (definitions, fields and arguments have a nil Position, types an
// empty one), no applied directives, and the built-in scalars and directives as the service reports them.
func IntrospectedSchema(parsed *ast.Schema) (schema *ast.Schema, err error) {
	defer func() {
		if r := recover(); r != nil {
			schema, err = nil, fmt.Errorf("PANIC: %v", r)
		}
	}()
	svc, err := gateway.New([]*graphql.RemoteSchema{{Schema: parsed, URL: "service"}}, gateway.WithLogger(Quiet{}))
	if err != nil {
		return nil, err
	}
	return graphql.IntrospectAPI(graphql.QueryerFunc(func(in *graphql.QueryInput) (interface{}, error) {
		rc := &gateway.RequestContext{Context: context.Background(), Query: in.Query, OperationName: in.OperationName, Variables: in.Variables}
		plans, err := svc.GetPlans(rc)
		if err != nil {
			return nil, err
		}
		response, err := svc.Execute(rc, plans)
		if err != nil {
			return nil, err
		}
		result := graphql.IntrospectionQueryResult{}
		dec, err := mapstructure.NewDecoder(&mapstructure.DecoderConfig{TagName: "json", Result: &result})
		if err != nil {
			return nil, err
		}
		if err := dec.Decode(response); err != nil {
			return nil, err
		}
		return result, nil
	}))
}
