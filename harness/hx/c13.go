package hx

import (
	"encoding/json"
	"fmt"
	"sort"
	"sync"
	"time"

	"github.com/nautilus/gateway"
	"github.com/vektah/gqlparser/v2/ast"
)

// ---------------------------------------------------------------------------------------------
// C13 — every fetch exactly once, no needless hop
// ---------------------------------------------------------------------------------------------

type c13 struct{}

func (c13) Cases(tier string) int {
	switch tier {
	case "thorough":
		return len(FedCorpus) + 10000
	case "search":
		return len(FedCorpus) + 3000
	}
	return len(FedCorpus) + 1200
}

func (c13) Rule() string {
	return "L2.findpoints: 30 generated cases per case (a target path through a small schema, a query selecting along it with aliases, inline/named fragments and split duplicate keys, a reply that mostly conforms and sometimes does not, an empty or non-empty starting branch) through executorFindInsertionPoints and Fp.findPts: same realised paths or both an error; federated stream (queries and mutations) with repeated objects in lists; per case the per-service request logs are compared with the plan and with the raw (pre-scrub) result captured through WithExecutor: (a) every included root response key occurs in exactly one root request, mutation resolvers ran once per requested mutation field; (b) no two plan steps share (service, insertion point, query); (c) for every (service, follow-up query) the multiset of join ids sent equals the multiset of ids of the parent objects found at the steps' insertion paths; (d) when no configured priority applies and every field of the operation is offered by the service answering its only root location, exactly one request is made; non-trivial = at least 2 requests or a mutation; distinct = distinct (federation, query)"
}

// CapExec wraps the real executor and keeps a deep copy of its raw result (before the id scrubber runs).
type CapExec struct {
	Inner gateway.Executor
	mu    sync.Mutex
	Raw   map[string]interface{}
	Err   error // what the inner executor returned (before response middlewares)
}

func (c *CapExec) Execute(ctx *gateway.ExecutionContext) (map[string]interface{}, error) {
	d, e := c.Inner.Execute(ctx)
	b, _ := json.Marshal(d)
	var cp map[string]interface{}
	json.Unmarshal(b, &cp)
	c.mu.Lock()
	c.Raw = cp
	c.Err = e
	c.mu.Unlock()
	return d, e
}

// objectsAt collects the objects found at a path of response keys (through lists, skipping nulls).
func objectsAt(v interface{}, path []string) []map[string]interface{} {
	switch x := v.(type) {
	case []interface{}:
		var out []map[string]interface{}
		for _, e := range x {
			out = append(out, objectsAt(e, path)...)
		}
		return out
	case map[string]interface{}:
		if len(path) == 0 {
			return []map[string]interface{}{x}
		}
		return objectsAt(x[path[0]], path[1:])
	}
	return nil
}

func isFollowUp(c *Call) bool {
	_, ok := c.Variables["id"]
	return ok && len(c.Query) > 0 && containsNodeRoot(c.Query)
}

func containsNodeRoot(q string) bool {
	for i := 0; i+12 <= len(q); i++ {
		if q[i:i+12] == "node(id: $id" {
			return true
		}
	}
	return false
}

func (c13) Run(c *Ctx, i int) CaseResult {
	var in FedInput
	feats := map[string]bool{}
	id := ""
	// L2: executorFindInsertionPoints against Fp.findPts (30 generated cases per case)
	findFeat := map[string]bool{}
	for k := 0; k < 30; k++ {
		fails, fs := FindCorr(c, c.Rand(i*1000+k+99000000))
		for _, f := range fs {
			findFeat[f] = true
		}
		if len(fails) > 0 {
			return CaseResult{ID: fmt.Sprintf("gen:%d", i), Nontrivial: true, Fails: fails}
		}
	}
	if i < len(FedCorpus) {
		in, id = FedCorpus[i].In, "corpus:"+FedCorpus[i].ID
	} else {
		r := c.Rand(i + 3000000)
		in, feats = GenFedInput(c, i+3000000, "C13")
		if r.Intn(5) == 0 {
			// a mutation: root fields must reach exactly one service exactly once
			subs := []string{"firstName", "lastName nick", "firstName photos { url likes }", "id friends { nick }"}
			q := "mutation { "
			q += fmt.Sprintf("bump(id: \"u1\") { %s } ", subs[r.Intn(len(subs))])
			if r.Intn(2) == 0 {
				q += "touch(id: \"p1\") { url likes } "
			}
			if r.Intn(3) == 0 {
				q += fmt.Sprintf("again: bump(id: \"u2\") { %s } ", subs[r.Intn(len(subs))])
			}
			in.Query, in.Vars = q+"}", nil
			feats = map[string]bool{"mutation": true}
		}
		if r.Intn(2) == 0 {
			in.ListLen = 2 + r.Intn(8) // repeated objects in allUsers
			feats["repeated-objects"] = true
		}
		in.OddIDs = false
		id = fmt.Sprintf("gen:%d", i)
	}
	for f := range findFeat {
		feats[f] = true
	}
	res := CaseResult{ID: id, Key: fmt.Sprint(in.Spec.SDLs, in.Spec.Priorities, in.Query, in.ListLen)}
	fails := c13Check(c, in, &res, feats, i >= len(FedCorpus))
	if len(fails) > 0 && i >= len(FedCorpus) {
		q := ShrinkQuery(in.Query, func(q string) bool {
			in2 := in
			in2.Query = q
			var r2 CaseResult
			return len(c13Check(c, in2, &r2, map[string]bool{}, true)) > 0
		}, 200)
		in2 := in
		in2.Query = q
		var r2 CaseResult
		if f2 := c13Check(c, in2, &r2, map[string]bool{}, true); len(f2) > 0 {
			fails = f2
		}
	}
	if len(fails) > 2 {
		fails = fails[:2]
	}
	res.Fails = fails
	return res
}

func c13Check(c *Ctx, in FedInput, res *CaseResult, feats map[string]bool, excludeKnown bool) []Failure {
	capx := &CapExec{Inner: &gateway.ParallelExecutor{}}
	fc, err := RunFed(c, in, 5*time.Second, gateway.WithExecutor(capx))
	if err != nil {
		return []Failure{{Channel: "harness", Classifier: "harness-error", What: err.Error(), Input: in}}
	}
	if fc.Invalid != "" {
		res.Skipped = "invalid-query:" + fc.Invalid
		return nil
	}
	if excludeKnown {
		if reg := InKnownRegion(fc.Classes); reg != "" {
			res.Skipped = "known-region:" + reg
			return nil
		}
	}
	if fc.Out.PlanHung || fc.Out.PlanErr || fc.Out.Hung || fc.Out.Panicked != nil || fc.Out.Plans == nil {
		res.Skipped = "not-executed"
		return nil
	}
	if fc.Out.Err != nil {
		res.Skipped = "errors" // error-free runs only; failures are C07's subject
		return nil
	}
	cl := InKnownRegion(fc.Classes)
	if cl == "" {
		cl = fc.Classifier()
	}
	res.Features = FeatList(feats)
	plan := fc.Out.Plans[0]
	var fails []Failure
	bad := func(what string, obs interface{}) {
		fails = append(fails, Failure{Channel: "L0.request-log", Classifier: cl, What: what, Input: in, Observed: obs})
	}
	total := fc.Fed.TotalCalls()
	res.Counters = map[string]int{"requests": total}
	res.Nontrivial = total >= 2 || fc.Op.Operation == ast.Mutation
	// (b) duplicate steps and (c) expected join ids per (service, query)
	type key struct{ svc, query string }
	wantIDs := map[key][]string{}
	seenStep := map[string]bool{}
	var walk func(steps []*gateway.QueryPlanStep)
	walk = func(steps []*gateway.QueryPlanStep) {
		for _, s := range steps {
			k := fmt.Sprint(StepURL(s), s.InsertionPoint, s.QueryString)
			if seenStep[k] {
				bad(fmt.Sprintf("two plan steps fetch the same selection from %s at %v", StepURL(s), s.InsertionPoint), PlanText(fc.Out.Plans))
			}
			seenStep[k] = true
			if len(s.InsertionPoint) > 0 && StepURL(s) != "GW" {
				kk := key{StepURL(s), s.QueryString}
				if _, ok := wantIDs[kk]; !ok {
					wantIDs[kk] = []string{}
				}
				for _, o := range objectsAt(capx.Raw, s.InsertionPoint) {
					if idv, ok := o["id"]; ok {
						wantIDs[kk] = append(wantIDs[kk], fmt.Sprint(idv))
					}
				}
			}
			walk(s.Then)
		}
	}
	walk(plan.RootStep.Then)
	gotIDs := map[key][]string{}
	rootKeys := map[string]int{}
	for _, svc := range fc.Fed.Services {
		for _, call := range svc.Calls() {
			if isFollowUp(call) && fc.Op.VariableDefinitions.ForName("id") == nil {
				kk := key{svc.URL, call.Query}
				gotIDs[kk] = append(gotIDs[kk], fmt.Sprint(call.Variables["id"]))
				continue
			}
			// a root request: which top-level response keys does it carry
			if doc := parseQuiet(call.Query); doc != nil {
				flat := flatKeys(doc, doc.Operations[0].SelectionSet, map[string]bool{})
				for _, k := range flat {
					rootKeys[k]++
				}
			}
		}
	}
	for kk, want := range wantIDs {
		got := gotIDs[kk]
		sort.Strings(want)
		sort.Strings(got)
		if fmt.Sprint(want) != fmt.Sprint(got) {
			bad(fmt.Sprintf("follow-up fetches at %s do not match the parent objects: joined ids %v, requested ids %v", kk.svc, want, got), map[string]interface{}{"query": kk.query, "plan": PlanText(fc.Out.Plans)})
		}
	}
	for kk, got := range gotIDs {
		if _, ok := wantIDs[kk]; !ok {
			bad(fmt.Sprintf("follow-up fetches at %s that no plan step accounts for: %v", kk.svc, got), kk.query)
		}
	}
	// (a) root keys
	if data, ok := normalise(fc.Want).(map[string]interface{}); ok {
		for k := range data {
			if k == "__typename" {
				continue
			}
			// gateway-owned root fields are answered without a service request
			if n := rootKeys[k]; n != 1 && !gatewayOwned(fc, k) {
				bad(fmt.Sprintf("root field %q was sent to services %d times", k, n), PlanText(fc.Out.Plans))
			}
		}
	}
	if fc.Op.Operation == ast.Mutation {
		want := map[string]int{}
		for _, sel := range fc.Op.SelectionSet {
			if f, ok := sel.(*ast.Field); ok {
				want[f.Name]++
			}
		}
		got := map[string]int{}
		for _, svc := range fc.Fed.Services {
			for k, v := range svc.Effects {
				got[k] += v
			}
		}
		if fmt.Sprint(want) != fmt.Sprint(got) {
			bad(fmt.Sprintf("mutation resolvers ran %v, the operation asks for %v", got, want), PlanText(fc.Out.Plans))
		}
	}
	// (d) single service
	if single, loc := singleServiceQuery(fc); single {
		res.Features = append(res.Features, "single-service")
		if total != 1 {
			bad(fmt.Sprintf("every field is offered by %s, which answers the root field, and no priority applies, yet %d requests were made", loc, total), PlanText(fc.Out.Plans))
		}
	}
	if len(fails) == 0 && (len(in.Query)%37 == 0) {
		res.Sample = map[string]interface{}{"query": in.Query, "requests": total, "follow_ups": len(gotIDs)}
	}
	// L1: the plan the requests came from against the planner model
	fails = append(fails, PlanCorrFails(c, fc, in)...)
	return fails
}

// gatewayOwned: the root response key denotes a field the gateway answers itself (node, introspection)
func gatewayOwned(fc *FedCase, key string) bool {
	owned := false
	var walk func(ss ast.SelectionSet, seen map[string]bool)
	walk = func(ss ast.SelectionSet, seen map[string]bool) {
		for _, sel := range ss {
			switch sel := sel.(type) {
			case *ast.Field:
				k := sel.Alias
				if k == "" {
					k = sel.Name
				}
				if k == key && (sel.Name == "node" || sel.Name == "__schema" || sel.Name == "__type" || sel.Name == "__typename") {
					owned = true
				}
			case *ast.InlineFragment:
				walk(sel.SelectionSet, seen)
			case *ast.FragmentSpread:
				if !seen[sel.Name] {
					seen[sel.Name] = true
					if d := fc.Doc.Fragments.ForName(sel.Name); d != nil {
						walk(d.SelectionSet, seen)
					}
				}
			}
		}
	}
	walk(fc.Op.SelectionSet, map[string]bool{})
	return owned
}

func parseQuiet(q string) *ast.QueryDocument {
	defer func() { recover() }()
	doc, err := parseOnly(q)
	if err != nil {
		return nil
	}
	return doc
}

// flatKeys lists the top-level response keys of a selection set through fragments.
func flatKeys(doc *ast.QueryDocument, ss ast.SelectionSet, seen map[string]bool) []string {
	var out []string
	for _, sel := range ss {
		switch sel := sel.(type) {
		case *ast.Field:
			k := sel.Alias
			if k == "" {
				k = sel.Name
			}
			out = append(out, k)
		case *ast.InlineFragment:
			out = append(out, flatKeys(doc, sel.SelectionSet, seen)...)
		case *ast.FragmentSpread:
			if !seen[sel.Name] {
				seen[sel.Name] = true
				if d := doc.Fragments.ForName(sel.Name); d != nil {
					out = append(out, flatKeys(doc, d.SelectionSet, seen)...)
				}
			}
		}
	}
	// each key once per request
	sort.Strings(out)
	var uniq []string
	for i, k := range out {
		if i == 0 || out[i-1] != k {
			uniq = append(uniq, k)
		}
	}
	return uniq
}

// singleServiceQuery: no configured priority can apply to any field, all root fields choose one service L,
// and every field of the operation is offered by L.
func singleServiceQuery(fc *FedCase) (bool, string) {
	loc := ""
	ok := true
	prios := map[string]bool{}
	for _, p := range fc.In.Spec.Priorities {
		prios[p] = true
	}
	var walk func(ss ast.SelectionSet, parentType string, top bool, seen map[string]bool)
	walk = func(ss ast.SelectionSet, parentType string, top bool, seen map[string]bool) {
		for _, sel := range ss {
			switch sel := sel.(type) {
			case *ast.Field:
				possible := fc.Fed.Locations[parentType+"."+sel.Name]
				for _, p := range possible {
					if prios[p] {
						ok = false
					}
				}
				if top {
					if len(possible) != 1 {
						ok = false
					} else if loc == "" {
						loc = possible[0]
					} else if loc != possible[0] {
						ok = false
					}
				} else {
					found := false
					for _, p := range possible {
						if p == loc {
							found = true
						}
					}
					if !found {
						ok = false
					}
				}
				if len(sel.SelectionSet) > 0 && sel.Definition != nil {
					t := sel.Definition.Type
					for t.Elem != nil {
						t = t.Elem
					}
					walk(sel.SelectionSet, t.NamedType, false, map[string]bool{})
				}
			case *ast.InlineFragment:
				pt := parentType
				if sel.TypeCondition != "" {
					pt = sel.TypeCondition
				}
				walk(sel.SelectionSet, pt, top, seen)
			case *ast.FragmentSpread:
				if !seen[sel.Name] {
					seen[sel.Name] = true
					if d := fc.Doc.Fragments.ForName(sel.Name); d != nil {
						walk(d.SelectionSet, d.TypeCondition, top, seen)
					}
				}
			}
		}
	}
	walk(fc.Op.SelectionSet, rootTypeOf(fc.Op), true, map[string]bool{})
	for _, s := range fc.In.Spec.Order {
		if s == loc {
			return ok, loc
		}
	}
	return false, loc
}

func init() { Runners["C13"] = c13{} }
