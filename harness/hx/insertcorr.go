package hx

import (
	"time"
	"encoding/json"
	"fmt"
	"math/rand"
	"strings"

	"github.com/nautilus/gateway"
)

// ---------------------------------------------------------------------------------------------
// L2 correspondence of the stitching model (lean/GwModel/Insert.lean, Point.lean) with execute.go:
// sequences of executorInsertObject calls on one target, and executorGetPointData / isListElement on point
// strings, run in-process through the verif-tagged hooks (VerifInsertObject, VerifPointData,
// VerifIsListElement) and through gwdrv (ops "insert", "point"). The theorems about the model
// (Ins.insert_comm, Props.C05.stitch_independent_of_schedule, Pt.point_roundtrip) speak about execute.go only
// through this comparison.
// ---------------------------------------------------------------------------------------------

type insertMsg struct {
	Path  []string    `json:"path"`
	Value interface{} `json:"value"`
}

type insertCase struct {
	Target map[string]interface{} `json:"target"`
	Msgs   []insertMsg            `json:"msgs"`
}

var insKeys = []string{"a", "b", "id", "users", "photos", "owner"}

func genJSON(r *rand.Rand, depth int) interface{} {
	k := r.Intn(10)
	if depth <= 0 && k >= 4 {
		k = r.Intn(4)
	}
	switch {
	case k == 0:
		return nil
	case k <= 2:
		return r.Intn(5)
	case k == 3:
		return []string{"x", "y", "u1", ""}[r.Intn(4)]
	case k <= 6:
		o := map[string]interface{}{}
		for n := r.Intn(4); n > 0; n-- {
			o[insKeys[r.Intn(len(insKeys))]] = genJSON(r, depth-1)
		}
		return o
	default:
		var l []interface{}
		for n := r.Intn(4); n > 0; n-- {
			l = append(l, genJSON(r, depth-1))
		}
		if l == nil {
			l = []interface{}{}
		}
		return l
	}
}

func genObj(r *rand.Rand, depth int) map[string]interface{} {
	o := map[string]interface{}{}
	for n := r.Intn(4); n > 0; n-- {
		o[insKeys[r.Intn(len(insKeys))]] = genJSON(r, depth-1)
	}
	return o
}

// genPath: mostly follows the structure the target has right now (so that insertions succeed), sometimes not
func genPath(r *rand.Rand, target map[string]interface{}) []string {
	var path []string
	var cur interface{} = target
	for n := r.Intn(4); n > 0; n-- {
		obj, _ := cur.(map[string]interface{})
		key := insKeys[r.Intn(len(insKeys))]
		if obj != nil && len(obj) > 0 && r.Intn(5) != 0 {
			var ks []string
			for k := range obj {
				ks = append(ks, k)
			}
			sortStrings(ks)
			key = ks[r.Intn(len(ks))]
		}
		var next interface{}
		if obj != nil {
			next = obj[key]
		}
		point := key
		l, isList := next.([]interface{})
		asList := isList
		if r.Intn(8) == 0 {
			asList = !asList
		}
		if next == nil && r.Intn(2) == 0 {
			asList = true
		}
		if asList {
			idx := r.Intn(4)
			if isList && len(l) > 0 && r.Intn(4) != 0 {
				idx = r.Intn(len(l))
			}
			point = fmt.Sprintf("%s:%d", key, idx)
			if isList && idx < len(l) {
				next = l[idx]
			} else {
				next = nil
			}
		}
		if r.Intn(3) == 0 {
			point += "#" + []string{"u1", "a:b", "x#y", ""}[r.Intn(4)]
		}
		path = append(path, point)
		cur = next
	}
	return path
}

func sortStrings(s []string) {
	for i := 1; i < len(s); i++ {
		for j := i; j > 0 && s[j] < s[j-1]; j-- {
			s[j], s[j-1] = s[j-1], s[j]
		}
	}
}

func deepCopy(v interface{}) interface{} {
	b, _ := json.Marshal(v)
	var out interface{}
	d := json.NewDecoder(strings.NewReader(string(b)))
	d.UseNumber()
	d.Decode(&out)
	return out
}

// executorStyle builds the messages of a three-level execution (root, one step per list element, one per nested
// element) in a parents-first random order.
func executorStyle(r *rand.Rand) insertCase {
	n := 1 + r.Intn(4)
	var users []interface{}
	type msg struct {
		m      insertMsg
		parent int
	}
	var ms []msg
	for i := 0; i < n; i++ {
		if r.Intn(6) == 0 {
			users = append(users, nil)
			continue
		}
		u := map[string]interface{}{"id": fmt.Sprintf("u%d", i)}
		if r.Intn(2) == 0 {
			u["a"] = i
		}
		users = append(users, u)
	}
	ms = append(ms, msg{insertMsg{Path: []string{}, Value: map[string]interface{}{"users": users}}, -1})
	for i, u := range users {
		if u == nil {
			continue
		}
		np := r.Intn(3)
		var photos []interface{}
		for j := 0; j < np; j++ {
			photos = append(photos, map[string]interface{}{"id": fmt.Sprintf("p%d%d", i, j)})
		}
		if photos == nil {
			photos = []interface{}{}
		}
		pi := len(ms)
		ms = append(ms, msg{insertMsg{Path: []string{fmt.Sprintf("users:%d#u%d", i, i)}, Value: map[string]interface{}{"photos": photos, "b": "x"}}, 0})
		if r.Intn(2) == 0 {
			// a second service contributing to the same object
			ms = append(ms, msg{insertMsg{Path: []string{fmt.Sprintf("users:%d#u%d", i, i)}, Value: map[string]interface{}{"owner": map[string]interface{}{"id": "o"}, "id": fmt.Sprintf("u%d", i)}}, 0})
		}
		for j := 0; j < np; j++ {
			ms = append(ms, msg{insertMsg{Path: []string{fmt.Sprintf("users:%d#u%d", i, i), fmt.Sprintf("photos:%d#p%d%d", j, i, j)}, Value: map[string]interface{}{"a": j}}, pi})
		}
	}
	// parents-first random order
	done := map[int]bool{-1: true}
	var out []insertMsg
	for len(out) < len(ms) {
		var ready []int
		for k, m := range ms {
			if !done[k] && done[m.parent] {
				ready = append(ready, k)
			}
		}
		k := ready[r.Intn(len(ready))]
		done[k] = true
		out = append(out, ms[k].m)
	}
	if r.Intn(4) == 0 && len(out) > 2 {
		// child before its parent: the situation the executor's statement order rules out
		a, b := 1+r.Intn(len(out)-1), 1+r.Intn(len(out)-1)
		out[a], out[b] = out[b], out[a]
	}
	return insertCase{Target: map[string]interface{}{}, Msgs: out}
}

func genInsertCase(r *rand.Rand) insertCase {
	if r.Intn(3) == 0 {
		return executorStyle(r)
	}
	c := insertCase{Target: genObj(r, 3)}
	if r.Intn(3) == 0 {
		c.Target = map[string]interface{}{}
	}
	// the generator tracks the target's evolution with the real code so that later paths follow the structure
	shadow := deepCopy(c.Target).(map[string]interface{})
	for n := 1 + r.Intn(5); n > 0; n-- {
		var v interface{} = genObj(r, 2)
		if r.Intn(8) == 0 {
			v = genJSON(r, 2)
		}
		m := insertMsg{Path: genPath(r, shadow), Value: v}
		if m.Path == nil {
			m.Path = []string{}
		}
		c.Msgs = append(c.Msgs, m)
		func() {
			defer func() { recover() }()
			gateway.VerifInsertObject(shadow, m.Path, deepCopy(v))
		}()
	}
	return c
}

// runInsertGo applies the messages with the real code; returns the final target or the index of the first error
func runInsertGo(c insertCase) (result interface{}, errAt int, panicked interface{}) {
	target := deepCopy(c.Target).(map[string]interface{})
	errAt = -1
	defer func() {
		if p := recover(); p != nil {
			panicked = p
		}
	}()
	for i, m := range c.Msgs {
		if err := gateway.VerifInsertObject(target, m.Path, deepCopy(m.Value)); err != nil {
			return nil, i, nil
		}
	}
	return target, -1, nil
}

// runInsertGoTimed is runInsertGo under a deadline: an insertion that does not return (a lock taken twice) is reported
// as such instead of stopping the whole run.
func runInsertGoTimed(c insertCase, d time.Duration) (result interface{}, errAt int, panicked interface{}, returned bool) {
	type out struct {
		r interface{}
		e int
		p interface{}
	}
	ch := make(chan out, 1)
	go func() {
		r, e, p := runInsertGo(c)
		ch <- out{r, e, p}
	}()
	select {
	case o := <-ch:
		return o.r, o.e, o.p, true
	case <-time.After(d):
		return nil, -1, nil, false
	}
}

// InsertReturns: every generated insertion sequence comes back (C06: stitching a result into the response never
// blocks, whatever is already there).
func InsertReturns(c *Ctx, r *rand.Rand) []Failure {
	ic := genInsertCase(r)
	if _, _, _, returned := runInsertGoTimed(ic, 3*time.Second); !returned {
		return []Failure{{Channel: "L0.returns", Classifier: "unclassified", What: "executorInsertObject did not return within 3 s on a sequence of insertions (it blocks on the result lock?)", Input: ic}}
	}
	return nil
}

// InsertCorr runs one generated insertion sequence through execute.go and through the Lean model.
func InsertCorr(c *Ctx, r *rand.Rand) (fails []Failure, feats []string) {
	ic := genInsertCase(r)
	got, errAt, p, returned := runInsertGoTimed(ic, 3*time.Second)
	if !returned {
		return []Failure{{Channel: "L2.insert", Classifier: "unclassified", What: "executorInsertObject did not return within 3 s (the model stitches the sequence)", Input: ic}}, nil
	}
	if p != nil {
		return []Failure{{Channel: "L2.insert", Classifier: "unclassified", What: fmt.Sprintf("executorInsertObject panicked: %v", p), Input: ic}}, nil
	}
	if c.Drv == nil {
		return nil, nil
	}
	ans, err := c.Drv.Call(map[string]interface{}{"op": "insert", "target": ic.Target, "msgs": ic.Msgs})
	if err != nil {
		return []Failure{{Channel: "harness", Classifier: "harness-error", What: err.Error(), Input: ic}}, nil
	}
	feats = append(feats, fmt.Sprintf("insert-msgs-%d", len(ic.Msgs)))
	if e, ok := ans["error_at"]; ok {
		feats = append(feats, "insert-error")
		me := int(toFloat(e))
		if errAt != me {
			return []Failure{{Channel: "L2.insert", Classifier: "unclassified", What: fmt.Sprintf("the model rejects message %d, execute.go %s", me, describeErrAt(errAt)), Input: ic,
				Expected: ans, Observed: map[string]interface{}{"error_at": errAt, "result": got}}}, feats
		}
		return nil, feats
	}
	feats = append(feats, "insert-ok")
	if errAt >= 0 {
		return []Failure{{Channel: "L2.insert", Classifier: "unclassified", What: fmt.Sprintf("execute.go rejects message %d, the model accepts all", errAt), Input: ic, Expected: ans}}, feats
	}
	if Canon(got) != Canon(ans["result"]) {
		return []Failure{{Channel: "L2.insert", Classifier: "unclassified", What: "executorInsertObject and the model disagree on the stitched value", Input: ic,
			Expected: ans["result"], Observed: got}}, feats
	}
	return nil, feats
}

func describeErrAt(i int) string {
	if i < 0 {
		return "accepts all"
	}
	return fmt.Sprintf("rejects message %d", i)
}

func toFloat(v interface{}) float64 {
	switch x := v.(type) {
	case float64:
		return x
	case json.Number:
		f, _ := x.Float64()
		return f
	case int:
		return float64(x)
	}
	return -1
}

// PointCorr compares executorGetPointData / isListElement with Pt.parsePoint / Pt.isListElement on rendered and on
// arbitrary point strings.
func PointCorr(c *Ctx, r *rand.Rand) []Failure {
	// no '-': strconv.Atoi accepts negative numbers, which the executor never renders and the model leaves out
	alphabet := []string{"a", "users", ":", "#", "0", "12", "7", "x", " ", "é", "+"}
	var point string
	if r.Intn(2) == 0 {
		// what executorFindInsertionPoints renders
		point = []string{"users", "a", "phö tos"}[r.Intn(3)]
		if r.Intn(2) == 0 {
			point += fmt.Sprintf(":%d", r.Intn(200))
		}
		if r.Intn(2) == 0 {
			point += "#" + []string{"u1", "a:b#c", "", "1:2", " spaced id", "#"}[r.Intn(6)]
		}
	} else {
		for n := r.Intn(6); n > 0; n-- {
			point += alphabet[r.Intn(len(alphabet))]
		}
	}
	if c.Drv == nil {
		return nil
	}
	var field, id string
	var index int
	var gerr error
	var isList bool
	var panicked interface{}
	func() {
		defer func() { panicked = recover() }()
		isList = gateway.VerifIsListElement(point)
		field, index, id, gerr = gateway.VerifPointData(point)
	}()
	if panicked != nil {
		return []Failure{{Channel: "L2.point", Classifier: "unclassified", What: fmt.Sprintf("executorGetPointData panicked on %q: %v", point, panicked), Input: point}}
	}
	ans, err := c.Drv.Call(map[string]interface{}{"op": "point", "point": point})
	if err != nil {
		return []Failure{{Channel: "harness", Classifier: "harness-error", What: err.Error(), Input: point}}
	}
	bad := func(what string) []Failure {
		return []Failure{{Channel: "L2.point", Classifier: "unclassified", What: what, Input: point, Expected: ans,
			Observed: map[string]interface{}{"field": field, "index": index, "id": id, "error": ErrString(gerr), "list": isList}}}
	}
	if l, _ := ans["list"].(bool); l != isList {
		return bad("isListElement disagrees with the model")
	}
	if _, merr := ans["error"]; merr {
		if gerr == nil {
			return bad("the model rejects the point, executorGetPointData accepts it")
		}
		return nil
	}
	if gerr != nil {
		return bad("executorGetPointData rejects the point, the model accepts it")
	}
	if ans["field"] != field || ans["id"] != id || int(toFloat(ans["index"])) != index {
		return bad("executorGetPointData and the model disagree")
	}
	return nil
}
