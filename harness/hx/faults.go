package hx

import (
	"context"
	"errors"
	"fmt"
	"sync"
	"sync/atomic"
	"time"

	"github.com/nautilus/graphql"
	"github.com/vektah/gqlparser/v2"
)

// FaultLog records what the fault injector actually did.
type FaultLog struct {
	mu       sync.Mutex
	Failures int   // calls answered with an error
	Errors   int   // individual errors injected (an error list counts each entry)
	Shapes   int   // calls answered with a malformed / null payload and no error
	AtJoin   int   // calls answered with null at a join position and an error saying why
	InFlight int64 // service calls currently executing
	MaxInFlight int64
}

func (l *FaultLog) Snapshot() (failures, errs, shapes int) {
	l.mu.Lock()
	defer l.mu.Unlock()
	return l.Failures, l.Errors, l.Shapes
}

// InstallFaults wires fault specs and the optional barrier into the federation's services.
func InstallFaults(f *Fed, faults []FaultSpec, barrier int) *FaultLog {
	fl := &FaultLog{}
	var arrived int64
	release := make(chan struct{})
	var once sync.Once
	for _, s := range f.Services {
		s := s
		s.Gate = func(svc *Service, n int, in *graphql.QueryInput) {
			v := atomic.AddInt64(&fl.InFlight, 1)
			for {
				m := atomic.LoadInt64(&fl.MaxInFlight)
				if v <= m || atomic.CompareAndSwapInt64(&fl.MaxInFlight, m, v) {
					break
				}
			}
			if barrier > 0 && len(svc.callsIsRoot(in)) == 0 {
				if atomic.AddInt64(&arrived, 1) >= int64(barrier) {
					once.Do(func() { close(release) })
				}
				select {
				case <-release:
				case <-time.After(150 * time.Millisecond):
					once.Do(func() { close(release) })
				}
			}
		}
		s.Done = func() { atomic.AddInt64(&fl.InFlight, -1) }
		var mine []FaultSpec
		for _, fs := range faults {
			if fs.Service == s.URL {
				mine = append(mine, fs)
			}
		}
		if len(mine) == 0 {
			continue
		}
		s.Fail = func(in *graphql.QueryInput, n int) (interface{}, error, bool) {
			for _, fs := range mine {
				hit := n >= fs.From && n < fs.From+fs.Count
				if fs.MatchID != "" {
					idv, has := in.Variables["id"]
					hit = (fs.MatchID == "root" && !has) || (has && fmt.Sprint(idv) == fs.MatchID)
				}
				if hit {
					fl.mu.Lock()
					defer fl.mu.Unlock()
					switch fs.Kind {
					case "transport":
						fl.Failures++
						fl.Errors++
						return nil, errors.New("injected transport failure"), true
					case "gqlerrors":
						fl.Failures++
						fl.Errors += 2
						return nil, graphql.ErrorList{&graphql.Error{Message: "injected-1"}, &graphql.Error{Message: "injected-2"}}, true
					case "gqlerrors+data":
						fl.Failures++
						fl.Errors++
						// the real answer, accompanied by an error
						doc, errs := gqlparser.LoadQuery(s.Schema, in.Query)
						if errs != nil {
							return nil, errors.New("injected-with-data"), true
						}
						data, _ := Exec(s.Schema, s.Store, doc, in.OperationName, in.Variables)
						return data, graphql.ErrorList{&graphql.Error{Message: "injected-with-data"}}, true
					case "gqlerrors+empty":
						// errors, and a data object that holds nothing (a server that always writes both members)
						fl.Failures++
						fl.Errors++
						return map[string]interface{}{}, graphql.ErrorList{&graphql.Error{Message: "injected-with-empty-data"}}, true
					case "blank-error":
						// a server that blanks its messages: the failure is one all the same
						fl.Failures++
						fl.Errors++
						return nil, graphql.ErrorList{&graphql.Error{Message: ""}}, true
					case "empty-errors":
						// {"data": …, "errors": []}: the answer of a server that always writes the errors member; the
						// queryer hands up a non-nil, EMPTY error list with the data (nothing failed)
						fl.Shapes++
						doc, errs := gqlparser.LoadQuery(s.Schema, in.Query)
						if errs != nil {
							return nil, nil, false
						}
						data, _ := Exec(s.Schema, s.Store, doc, in.OperationName, in.Variables)
						return data, graphql.ErrorList{}, true
					case "timeout":
						// what a queryer with its own per-call budget returns: an error that wraps the context error of
						// THAT call (the request's own context is alive and well)
						fl.Failures++
						fl.Errors++
						return nil, fmt.Errorf("injected: the service did not answer in time: %w", context.DeadlineExceeded), true
					case "gqlerrors+null":
						// the way many servers report a failed field: the errors, and null where the field belongs
						fl.Failures++
						fl.Errors++
						if isRootCall(in) {
							return nil, graphql.ErrorList{&graphql.Error{Message: "injected-with-null"}}, true
						}
						return map[string]interface{}{"node": nil}, graphql.ErrorList{&graphql.Error{Message: "injected-with-null", Path: []interface{}{"node"}}}, true
					case "join-null-element+error":
						// one element of the list at a join is null, with an error whose path names the element
						doc, errs := gqlparser.LoadQuery(s.Schema, in.Query)
						if errs != nil {
							return nil, nil, false
						}
						data, _ := Exec(s.Schema, s.Store, doc, in.OperationName, in.Variables)
						if malformAt(data, fs.Path, fs.Kind, !isRootCall(in)) {
							fl.Failures++
							fl.Errors++
							fl.AtJoin++
							path := []interface{}{}
							for _, p := range fs.Path {
								path = append(path, p)
							}
							return data, graphql.ErrorList{&graphql.Error{Message: "injected-at-join: the element could not be resolved", Path: append(path, 0)}}, true
						}
						return nil, nil, false
					case "join-null+error":
						// the usual way a server reports a field it could not resolve: null where the field belongs — here
						// exactly where a dependent step joins — and an error saying why
						doc, errs := gqlparser.LoadQuery(s.Schema, in.Query)
						if errs != nil {
							return nil, nil, false
						}
						data, _ := Exec(s.Schema, s.Store, doc, in.OperationName, in.Variables)
						if malformAt(data, fs.Path, fs.Kind, !isRootCall(in)) {
							fl.Failures++
							fl.Errors++
							fl.AtJoin++
							path := []interface{}{}
							for _, p := range fs.Path {
								path = append(path, p)
							}
							return data, graphql.ErrorList{&graphql.Error{Message: "injected-at-join: the field could not be resolved", Path: path}}, true
						}
						return nil, nil, false
					case "join-drop-id", "join-retype", "join-scalar":
						// the real answer, malformed exactly where a dependent step joins
						doc, errs := gqlparser.LoadQuery(s.Schema, in.Query)
						if errs != nil {
							return nil, nil, false
						}
						data, _ := Exec(s.Schema, s.Store, doc, in.OperationName, in.Variables)
						if malformAt(data, fs.Path, fs.Kind, !isRootCall(in)) {
							fl.Shapes++
							return data, nil, true
						}
						return nil, nil, false
					case "node-null":
						fl.Shapes++
						return map[string]interface{}{"node": nil}, nil, true
					case "empty":
						fl.Shapes++
						return map[string]interface{}{}, nil, true
					case "wrong-shape":
						fl.Shapes++
						return map[string]interface{}{"node": []interface{}{}, "me": []interface{}{}, "allUsers": "x", "pets": map[string]interface{}{}, "allPhotos": 3}, nil, true
					}
				}
			}
			return nil, nil, false
		}
	}
	return fl
}

// callsIsRoot returns a non-empty marker when the input is a root (non node) query; the barrier only
// holds dependent calls so that the root can produce the fan-out first.
func (s *Service) callsIsRoot(in *graphql.QueryInput) string {
	if _, ok := in.Variables["id"]; ok {
		return ""
	}
	return "root"
}

func isRootCall(in *graphql.QueryInput) bool {
	_, has := in.Variables["id"]
	return !has
}

// malformAt walks path through data (first non-null entry of every list on the way) and malforms the value found
// under the last key: join-drop-id removes the id of the object (of the first object of a list); join-retype puts a
// one-element list (without id) where an object is and the first entry where a list is; join-scalar puts a scalar
// where an object is and as the first entry where a list is. Reports whether anything was changed.
func malformAt(data map[string]interface{}, path []string, kind string, underNode bool) bool {
	var cur interface{} = data
	if underNode {
		cur = data["node"]
	}
	if len(path) == 0 {
		return false
	}
	for i, key := range path {
		for {
			l, ok := cur.([]interface{})
			if !ok {
				break
			}
			cur = nil
			for _, e := range l {
				if e != nil {
					cur = e
					break
				}
			}
		}
		obj, ok := cur.(map[string]interface{})
		if !ok {
			return false
		}
		if i < len(path)-1 {
			cur = obj[key]
			continue
		}
		if kind == "join-null-element+error" {
			l, ok := obj[key].([]interface{})
			if !ok || len(l) == 0 || l[0] == nil {
				return false
			}
			l[0] = nil
			return true
		}
		if kind == "join-null+error" {
			if obj[key] == nil {
				return false
			}
			obj[key] = nil
			return true
		}
		switch t := obj[key].(type) {
		case map[string]interface{}:
			switch kind {
			case "join-drop-id":
				if _, has := t["id"]; !has {
					return false
				}
				delete(t, "id")
			case "join-retype":
				delete(t, "id")
				obj[key] = []interface{}{t}
			case "join-scalar":
				obj[key] = "x"
			}
			return true
		case []interface{}:
			first := -1
			for j, e := range t {
				if _, ok := e.(map[string]interface{}); ok {
					first = j
					break
				}
			}
			if first < 0 {
				return false
			}
			switch kind {
			case "join-drop-id":
				delete(t[first].(map[string]interface{}), "id")
			case "join-retype":
				obj[key] = t[first]
			case "join-scalar":
				t[first] = 3
			}
			return true
		}
		return false
	}
	return false
}
