package hx

import (
	"errors"
	"fmt"
	"sync"
	"sync/atomic"
	"time"

	"github.com/nautilus/graphql"
	"github.com/vektah/gqlparser/v2"
)

// FaultLog records what the fault injector actually did.
type FaultLog struct {
	mu       sync.Mutex
	Failures int   // calls answered with an error
	Errors   int   // individual errors injected (an error list counts each entry)
	Shapes   int   // calls answered with a malformed / null payload and no error
	InFlight int64 // service calls currently executing
	MaxInFlight int64
}

func (l *FaultLog) Snapshot() (failures, errs, shapes int) {
	l.mu.Lock()
	defer l.mu.Unlock()
	return l.Failures, l.Errors, l.Shapes
}

// InstallFaults wires fault specs and the optional barrier into the federation's services.
func InstallFaults(f *Fed, faults []FaultSpec, barrier int) *FaultLog {
	fl := &FaultLog{}
	var arrived int64
	release := make(chan struct{})
	var once sync.Once
	for _, s := range f.Services {
		s := s
		s.Gate = func(svc *Service, n int, in *graphql.QueryInput) {
			v := atomic.AddInt64(&fl.InFlight, 1)
			for {
				m := atomic.LoadInt64(&fl.MaxInFlight)
				if v <= m || atomic.CompareAndSwapInt64(&fl.MaxInFlight, m, v) {
					break
				}
			}
			if barrier > 0 && len(svc.callsIsRoot(in)) == 0 {
				if atomic.AddInt64(&arrived, 1) >= int64(barrier) {
					once.Do(func() { close(release) })
				}
				select {
				case <-release:
				case <-time.After(150 * time.Millisecond):
					once.Do(func() { close(release) })
				}
			}
		}
		s.Done = func() { atomic.AddInt64(&fl.InFlight, -1) }
		var mine []FaultSpec
		for _, fs := range faults {
			if fs.Service == s.URL {
				mine = append(mine, fs)
			}
		}
		if len(mine) == 0 {
			continue
		}
		s.Fail = func(in *graphql.QueryInput, n int) (interface{}, error, bool) {
			for _, fs := range mine {
				hit := n >= fs.From && n < fs.From+fs.Count
				if fs.MatchID != "" {
					idv, has := in.Variables["id"]
					hit = (fs.MatchID == "root" && !has) || (has && fmt.Sprint(idv) == fs.MatchID)
				}
				if hit {
					fl.mu.Lock()
					defer fl.mu.Unlock()
					switch fs.Kind {
					case "transport":
						fl.Failures++
						fl.Errors++
						return nil, errors.New("injected transport failure"), true
					case "gqlerrors":
						fl.Failures++
						fl.Errors += 2
						return nil, graphql.ErrorList{&graphql.Error{Message: "injected-1"}, &graphql.Error{Message: "injected-2"}}, true
					case "gqlerrors+data":
						fl.Failures++
						fl.Errors++
						// the real answer, accompanied by an error
						doc, errs := gqlparser.LoadQuery(s.Schema, in.Query)
						if errs != nil {
							return nil, errors.New("injected-with-data"), true
						}
						data, _ := Exec(s.Schema, s.Store, doc, in.OperationName, in.Variables)
						return data, graphql.ErrorList{&graphql.Error{Message: "injected-with-data"}}, true
					case "node-null":
						fl.Shapes++
						return map[string]interface{}{"node": nil}, nil, true
					case "empty":
						fl.Shapes++
						return map[string]interface{}{}, nil, true
					case "wrong-shape":
						fl.Shapes++
						return map[string]interface{}{"node": []interface{}{}, "me": []interface{}{}, "allUsers": "x", "pets": map[string]interface{}{}, "allPhotos": 3}, nil, true
					}
				}
			}
			return nil, nil, false
		}
	}
	return fl
}

// callsIsRoot returns a non-empty marker when the input is a root (non node) query; the barrier only
// holds dependent calls so that the root can produce the fan-out first.
func (s *Service) callsIsRoot(in *graphql.QueryInput) string {
	if _, ok := in.Variables["id"]; ok {
		return ""
	}
	return "root"
}
