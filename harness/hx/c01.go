package hx

import (
	"encoding/json"
	"fmt"
	"sort"
	"strings"
	"time"
)

// ---------------------------------------------------------------------------------------------
// C01 — federated execution is transparent (L0: gateway data vs Lean `mono`)
// ---------------------------------------------------------------------------------------------

type corpusCase struct {
	ID   string
	In   FedInput
	Note string
}

func fixedIn(q string) FedInput { return FedInput{Spec: FixedFed(), StoreSeed: 5, Query: q} }

func withVars(in FedInput, op string, vars map[string]interface{}) FedInput {
	in.OpName, in.Vars = op, vars
	return in
}
func withOdd(in FedInput) FedInput               { in.OddIDs = true; return in }
func withPrio(in FedInput, p ...string) FedInput { in.Spec.Priorities = p; return in }

// FedCorpus: minimised past failures (DESIGN §8); they always run first.
var FedCorpus = []corpusCase{
	{"null-variable-is-forwarded", withVars(fixedIn(`query Q($k: ID = "u2", $off: Boolean = false) { me { firstName lastName } x: user(id: $k) @include(if: $off) { lastName nick } }`), "Q", map[string]interface{}{"k": nil}), "a variable given as null is not a variable not given: the services must be sent the null"},
	{"both-conditions-on-a-gateway-field", fixedIn(`{ node(id: "u1") @include(if: true) @skip(if: true) { id } me { firstName } }`), "@skip and @include together on a field the gateway answers itself: included only if both let it in"},
	{"both-conditions-on-a-gateway-field-2", fixedIn(`{ a: node(id: "u2") @skip(if: false) @include(if: false) { id ... on User { lastName } } me { firstName } }`), ""},
	{"both-conditions-on-a-service-field", fixedIn(`{ me @skip(if: false) @include(if: true) { firstName lastName @include(if: true) @skip(if: true) nick } }`), ""},
	{"D01-null-list-entry", fixedIn(`{ allPhotos { url likes } }`), "list containing null with a dependent step"},
	{"D04-untyped-inline", fixedIn(`{ allUsers { ... { firstName } } }`), ""},
	{"D05-fragment-directive-var", withVars(fixedIn(`query($s: Boolean!) { me { firstName ... on User @include(if: $s) { lastName } } }`), "", map[string]interface{}{"s": true}), ""},
	{"D05-spread-directive-var", withVars(fixedIn(`query($s: Boolean!) { me { firstName ...F @include(if: $s) } } fragment F on User { lastName }`), "", map[string]interface{}{"s": true}), ""},
	{"D06-alias-id", fixedIn(`{ me { id: firstName lastName } }`), "KF"},
	{"D07-variable-id", withVars(fixedIn(`query($id: Boolean!) { me { firstName lastName @include(if: $id) } }`), "", map[string]interface{}{"id": true}), "KF"},
	{"D08-alias-shadows-name", fixedIn(`{ me { friends: photos { url } photos: friends { lastName } } }`), ""},
	{"D09-named-fragment-two-services", fixedIn(`{ allUsers { ...F } } fragment F on User { firstName lastName }`), ""},
	{"D11-conditional-id-skip", fixedIn(`{ me { id @skip(if: true) lastName } }`), "KF"},
	{"D11-conditional-id-type", fixedIn(`{ node(id: "u1") { ... on Photo { id url } ... on User { firstName lastName } } }`), "KF"},
	{"D12-node-typename", fixedIn(`{ node(id: "u1") { __typename } }`), ""},
	{"D12-node-unknown-id", fixedIn(`{ node(id: "zzz") { id } }`), "KF"},
	{"D13-hash-in-id", withOdd(fixedIn(`{ allPhotos { url likes } }`)), ""},
	{"D13-colon-in-id", withOdd(fixedIn(`{ allUsers { firstName lastName } }`)), ""},
	{"D15-root-typename", fixedIn(`{ __typename me { firstName } }`), ""},
	{"D41-fragment-reused", fixedIn(`{ me { ...F friends { ...F } } } fragment F on User { firstName lastName }`), ""},
	{"D43-excluded-fragment-internal", fixedIn(`{ ... @include(if: false) { __typename } me { firstName } }`), ""},
	{"D44-two-joins-under-list", fixedIn(`{ allUsers { lastName nick } }`), ""},
	{"D46-nested-fragments-same-root", fixedIn(`{ ... on Query { ... on Query { allUsers { x1: firstName } } } allUsers { nick } }`), ""},
	{"D47-directive-on-outer-spread-of-nested-fragments", withPrio(fixedIn(`{ ...F0 } fragment F0 on Query { ...F1 @skip(if: true) } fragment F1 on Query { ...F2 } fragment F2 on Query { ...F3 } fragment F3 on Query { __typename }`), "B"), ""},
	{"D48-join-under-narrowing-fragment-list", fixedIn(`{ pets { ... on Cat { ... on Cat { toys } } } }`), "elements the fragment does not apply to carry no id"},
	{"D48-join-under-narrowing-fragment-object", fixedIn(`{ user(id: "u2") { pet { ... on Cat { ... on Cat { toys } } } } }`), ""},
	{"D61-branch-beneath-skipped-fragment", FedInput{Spec: FixedFed2(), StoreSeed: 5, Query: `query ($v: Boolean!) { allUsers { ... on User @skip(if: $v) { photos { x1: url } } photos { likes } } }`, Vars: map[string]interface{}{"v": true}}, "the dependent step joined at allUsers/photos ignored the @skip of the fragment its field was found under"},
	{"D61-branch-beneath-skipped-field", FedInput{Spec: FixedFed2(), StoreSeed: 5, Query: `query ($v: Boolean!) { allUsers { photos @skip(if: $v) { x1: url } photos { likes } } }`, Vars: map[string]interface{}{"v": true}}, ""},
	{"D63-fragment-spread-again-beneath-a-field", FedInput{Spec: FixedFed(), StoreSeed: 5, Query: `{ allUsers { ...F photos { owner { ...F } } } } fragment F on User { firstName lastName }`}, "the second place of the spread, inside a step created with its own part of F, lost the other service's fields"},
	{"D63-fragment-parts-differ-between-places", FedInput{Spec: FixedFed4(), StoreSeed: 5, Query: `{ allUsers { ...F friends { ...F } } } fragment F on User { lastName photos { likes } }`}, "one name cannot stand for two different parts: the later place gets its part inline"},
	{"D63-fragment-with-inline-content", FedInput{Spec: FixedFed4(), StoreSeed: 5, Query: `{ allUsers { ...F friends { ...F } } } fragment F on User { ... on User { lastName photos { likes } } }`}, ""},
	{"D61-branch-beneath-included-fragment", FedInput{Spec: FixedFed2(), StoreSeed: 5, Query: `query ($v: Boolean!) { allUsers { ... @include(if: $v) { friends { photos { likes } } } friends { nick } } }`, Vars: map[string]interface{}{"v": false}}, ""},
	{"abstract-boundary-two-conditions-nested", FedInput{Spec: FixedFed3(), StoreSeed: 5, Query: `{ pets { ... on Cat { ... { toys } } ... on Dog { ... { barks } } } }`}, "selections under two type conditions of one abstract field, same remote service, reached through nested fragments (seeded change S-C01-2)"},
	{"abstract-boundary-two-conditions-named", FedInput{Spec: FixedFed3(), StoreSeed: 5, Query: `{ me { pet { ...C ...D } } } fragment C on Cat { ... on Cat { toys } } fragment D on Dog { ... on Dog { barks } }`}, ""},
	{"D48-join-under-skipped-fragment", fixedIn(`{ me { friends { ... on User @skip(if: true) { ...F6 } } } } fragment F6 on User { nick }`), ""},
	{"D49-mutation-duplicated-by-nested-fragments", fixedIn(`mutation { bump(id: "u1") { firstName } ... on Mutation { ... on Mutation { bump(id: "u1") { firstName } } } }`), "two root requests, the mutation runs twice"},
	{"D49-root-field-twice-through-fragments", fixedIn(`{ ...F0 } fragment F0 on Query { ...F1 allPhotos { __typename } } fragment F1 on Query { allPhotos { url } }`), ""},
	{"D50-repeated-field-duplicate-step", fixedIn(`{ me { lastName } me { lastName } }`), "two identical dependent steps"},
	{"D26-inline-priority", withPrio(fixedIn(`{ me { ... on User { lastName } } }`), "C"), "planner ping-pong"},
	{"basic-nested", fixedIn(`{ allUsers { firstName photos { url likes owner { firstName } } } }`), ""},
	{"basic-node", fixedIn(`{ node(id: "u1") { ... on User { firstName lastName } } }`), ""},
	{"D66-node-of-another-type-narrowed-by-a-spread", fixedIn(`{ node(id: "p1") { ... on User { ...F2 } } } fragment F2 on User { firstName }`), "the gateway's node field answers any id; a follow-up narrowed to a concrete type by a fragment around a spread may rightfully find nothing"},
	{"D66-node-of-another-type-narrowed-2", fixedIn(`{ a: node(id: "u1") { ...F1 } b: node(id: "p2") { ...F1 } } fragment F1 on Node { ... on User { ...F2 } } fragment F2 on User { lastName nick }`), ""},
	{"same-node-under-two-keys", fixedIn(`{ a: node(id: "u1") { ... on User { lastName } } b: node(id: "u1") { id ... on User { firstName } } }`), "two places of the response describe one object: each has its own keys (what is stitched into one, or scrubbed from it, must not show in the other)"},
	{"same-node-under-two-keys-2", fixedIn(`{ a: node(id: "u2") { ... on User { nick photos { likes } } } b: node(id: "u2") { ... on User { lastName } } c: node(id: "u1") { id } }`), ""},
	{"same-user-under-two-keys", fixedIn(`{ a: user(id: "u1") { lastName } b: user(id: "u1") { id firstName nick } }`), ""},
	{"basic-interface", fixedIn(`{ pets { name ... on Cat { lives toys } ... on Dog { barks owner { nick } } } }`), ""},
	{"basic-cycle", fixedIn(`{ me { friends { friends { friends { lastName } } } } }`), ""},
}

type c01 struct{}

func (c01) Cases(tier string) int {
	switch tier {
	case "thorough":
		return len(FedCorpus) + 12000
	case "search":
		return len(FedCorpus) + 3000
	}
	return len(FedCorpus) + 700
}

func (c01) Rule() string {
	return "L2.gateway-query: 2 generated documents per case over the fields the gateway answers itself through the real Gateway.Query and Gq.query; L2.point: 10 point strings per case (rendered `key[:index][#id]` with ids containing the separators, and arbitrary strings over the separators) through executorGetPointData / isListElement and Pt.parsePoint / Pt.isListElement; corpus of minimised past failures, then random federations (monolith schema partitioned over 2-4 services, one case in twelve a single service, fields homed at 1-2 services, optional priorities) x random data graphs (nulls, empty/long lists, cycles, ids with ':' '#' space, non-ASCII) x type-directed queries (aliases, inline/untyped/named fragments, @skip/@include literal and variable, __typename, node(id)); every fourth case is also sent through GraphQLHandler and the body compared with what Execute returned; every 20th generated case a three-level plan under a list of 40-160 elements, executed 4 times; a case is non-trivial when the gateway made at least 2 service calls; distinct = distinct (federation, query) text; inputs in open known-finding regions are excluded from the random stream and exercised through their canonical replay; every eighth generated case also through a gateway in its DEFAULT configuration over the same federation (L0.net-twin: the client library's network queryers, JSON over an in-process http transport) — data, errors and number of requests as over in-process queryers; corpus cases with one object under two response keys"
}

// GenFedInput draws a random federated input for case i.
func GenFedInput(c *Ctx, i int, forC string) (FedInput, map[string]bool) {
	r := c.Rand(i)
	var spec FedSpec
	switch r.Intn(12) {
	case 0, 1, 2:
		spec = FixedFed()
	case 3:
		// a gateway in front of a single service (it still joins: through its own node field)
		spec = SingleFed()
	default:
		spec = GenFed(r, 2+r.Intn(3), 25)
	}
	if r.Intn(4) == 0 {
		// priorities: partial, total or naming an unknown service
		p := append([]string{}, spec.Order...)
		r.Shuffle(len(p), func(a, b int) { p[a], p[b] = p[b], p[a] })
		p = p[:1+r.Intn(len(p))]
		if r.Intn(5) == 0 {
			p = append([]string{"nowhere"}, p...)
		}
		if len(p) >= 2 && r.Intn(4) == 0 {
			// a list naming a service twice (the first occurrence decides): append([]string{preferred}, all...)
			p = append(p, p[0])
		}
		if r.Intn(6) == 0 {
			// a non-empty list that offers nothing: the built-in preferences (enclosing service, gateway) decide
			p = []string{"nowhere"}
		}
		spec.Priorities = p
		spec.PrioritiesFirst = r.Intn(2) == 0
	}
	g := &QGen{R: r, Schema: MonoSchema(), F: QFeat{Inline: true, Untyped: true, Named: r.Intn(3) != 0, Directives: r.Intn(3) != 0,
		CompositeDirectives: r.Intn(4) == 0, AliasShadow: true, Typename: true, NodeRoot: r.Intn(5) == 0, RepeatKeys: r.Intn(6) == 0, ArgVars: true, Depth: 2 + r.Intn(3)}}
	q := g.Query("")
	in := FedInput{Spec: spec, StoreSeed: r.Int63n(1 << 30), OddIDs: r.Intn(5) == 0, Query: q, Vars: g.Vars}
	feats := g.Feats
	if len(spec.Priorities) > 0 {
		feats["priorities"] = true
	}
	if in.OddIDs {
		feats["odd-ids"] = true
	}
	if r.Intn(10) == 0 {
		// ONE named fragment spread at two places (the same step, or different steps), with the service boundary at its
		// top level, beneath one of its fields, inside a nested inline fragment or inside a second fragment
		sites := []string{
			`a: user(id: "u1") { ...F } b: user(id: "u2") { ...F }`,
			`me { friends { ...F } favorite { owner { ...F } } }`,
			`allUsers { ...F friends { ...F } }`,
			`me { ...F } allUsers { ...F }`,
			`topPhoto { owner { ...F } likedBy { ...F } }`,
		}
		bodies := []string{
			`fragment F on User { firstName friends { firstName lastName } }`,
			`fragment F on User { firstName ... on User { lastName photos { url likes } } }`,
			`fragment F on User { nick favorite { url likes owner { firstName nick } } }`,
			`fragment F on User { firstName lastName }`,
			`fragment F on User { firstName ...G } fragment G on User { photos { url likes } lastName }`,
			`fragment F on User { x1: firstName pet { name ... on Cat { lives toys } ... on Dog { barks } } }`,
		}
		in.Query = "{ " + sites[r.Intn(len(sites))] + " } " + bodies[r.Intn(len(bodies))]
		in.Vars = nil
		if r.Intn(2) == 0 {
			in.Spec = []FedSpec{FixedFed(), FixedFed2(), FixedFed3(), FixedFed4()}[r.Intn(4)]
			spec = in.Spec
		}
		feats = map[string]bool{"fragment-spread-at-two-places": true}
	}
	feats[fmt.Sprintf("services-%d", len(spec.Order))] = true
	return in, feats
}

func (c01) Run(c *Ctx, i int) CaseResult {
	var in FedInput
	repeat := 0
	feats := map[string]bool{}
	id := ""
	if i < len(FedCorpus) {
		in, id = FedCorpus[i].In, "corpus:"+FedCorpus[i].ID
		feats["corpus"] = true
	} else if i%20 == 7 {
		// wide and deep: a long list, follow-ups of follow-ups below it (hundreds of step results under way at once,
		// children whose results come in around their parent's); run several times, every answer must be the monolith's
		r := c.Rand(i + 86000000)
		in = FedInput{Spec: FixedFed(), StoreSeed: 5, ListLen: []int{40, 100, 160}[r.Intn(3)],
			Query: []string{`{ allUsers { photos { likes } } }`, `{ allUsers { firstName photos { url likes likedBy { firstName } } } }`,
				`{ allUsers { friends { lastName photos { likes } } } }`, `{ allUsers { lastName photos { url likes owner { nick } } } }`}[r.Intn(4)]}
		if r.Intn(3) > 0 {
			// follow-up calls are released together, so that their results come in as a burst
			in.Barrier = []int{12, 30, 60}[r.Intn(3)]
		}
		feats["wide-three-levels"] = true
		repeat = 3
		id = fmt.Sprintf("gen:%d", i)
	} else {
		in, feats = GenFedInput(c, i, "C01")
		id = fmt.Sprintf("gen:%d", i)
	}
	res := CaseResult{ID: id, Key: fmt.Sprint(in.Spec.SDLs, in.Spec.Priorities, in.Query, in.OddIDs, in.ListLen)}
	// L2: executorGetPointData / isListElement against Pt.parsePoint / Pt.isListElement (10 point strings per case)
	for k := 0; k < 10; k++ {
		if fails := PointCorr(c, c.Rand(i*100+k+88000000)); len(fails) > 0 {
			res.Nontrivial = true
			res.Fails = fails
			return res
		}
	}
	// L2: what the gateway answers itself (Gateway.Query) against Gq.query (2 generated documents per case)
	for k := 0; k < 2; k++ {
		if gf, _ := GwQueryCorr(c, c.Rand(i*100+k+93000000)); len(gf) > 0 {
			res.Nontrivial = true
			res.Fails = gf
			return res
		}
	}
	fc, err := RunFed(c, in, 5*time.Second)
	if err != nil {
		res.Fails = append(res.Fails, Failure{Channel: "harness", Classifier: "harness-error", What: err.Error(), Input: in})
		return res
	}
	if fc.Invalid != "" {
		res.Skipped = "invalid-query:" + fc.Invalid
		return res
	}
	if i >= len(FedCorpus) {
		if reg := InKnownRegion(fc.Classes); reg != "" {
			res.Skipped = "known-region:" + reg
			return res
		}
	}
	res.Features = FeatList(feats)
	res.Nontrivial = fc.Fed.TotalCalls() >= 2
	res.Counters = map[string]int{"service_calls": fc.Fed.TotalCalls()}
	if Canon(fc.Want) != Canon(fc.WantGo) {
		res.Fails = append(res.Fails, Failure{Channel: "L0.oracle-crosscheck", Classifier: "oracle-disagreement", What: "Lean mono and the harness interpreter disagree", Input: in, Expected: fc.Want, Observed: fc.WantGo})
		return res
	}
	if len(in.Vars) > 0 && !fc.Out.PlanErr && !fc.Out.PlanHung && fc.Op != nil && InKnownRegion(fc.Classes) == "" {
		// the same variables as the monolith was given: what each service is sent for a variable is what the client
		// gave for it — also when that is null, which is not the same as nothing
		for _, vf := range CheckCalls(fc) {
			if strings.Contains(vf.What, "$") {
				vf.Channel = "L0.variables-forwarded"
				res.Fails = append(res.Fails, vf)
				break
			}
		}
	}
	// L1: the plans against the planner model the transparency argument is about
	if !fc.Out.PlanErr && !fc.Out.PlanHung {
		res.Fails = append(res.Fails, PlanCorrFails(c, fc, in)...)
	}
	if ok, what := fc.Status(); !ok {
		fin, ffc := in, fc
		if i >= len(FedCorpus) {
			fin, ffc = ShrinkFed(c, in, fc)
			_, what = ffc.Status()
		}
		cl := InKnownRegion(ffc.Classes)
		if cl == "" {
			cl = ffc.Classifier()
		}
		res.Fails = append(res.Fails, Failure{Channel: "L0.mono", Classifier: cl, What: what, Input: fin, Expected: ffc.Want,
			Observed: map[string]interface{}{"data": ffc.Out.Data, "error": ErrString(ffc.Out.Err), "plan": PlanText(ffc.Out.Plans), "original_query": in.Query}})
	}
	if len(res.Fails) == 0 && i >= len(FedCorpus) && i%8 == 5 && in.ListLen == 0 && len(in.Faults) == 0 && InKnownRegion(fc.Classes) == "" {
		// the same request through a gateway in its default configuration over the same federation: the client library's
		// network queryers, variables and data as JSON over an in-process transport
		spec := in.Spec
		spec.Parsed = nil
		tc := NetTwinCase{Spec: &spec, Query: in.Query, OpName: in.OpName, Vars: in.Vars, StoreSeed: in.StoreSeed, OddIDs: in.OddIDs, Introspected: i%16 == 5}
		if nf := RunNetTwin(tc); len(nf) > 0 {
			res.Fails = append(res.Fails, nf...)
		}
		res.Features = append(res.Features, "net-twin")
	}
	for k := 0; k < repeat && len(res.Fails) == 0; k++ {
		again, err := RunFed(c, in, 8*time.Second)
		if err != nil {
			break
		}
		if ok, what := again.Status(); !ok {
			res.Fails = append(res.Fails, Failure{Channel: "L0.mono", Classifier: again.Classifier(), What: fmt.Sprintf("%s (repetition %d of the same request)", what, k+2), Input: in, Expected: again.Want,
				Observed: map[string]interface{}{"data": again.Out.Data, "error": ErrString(again.Out.Err), "plan": PlanText(again.Out.Plans)}})
		}
	}
	if len(res.Fails) == 0 && i%4 == 1 && repeat == 0 && !fc.Out.PlanErr && !fc.Out.PlanHung && !fc.Out.Hung && fc.Out.Panicked == nil {
		// the same request through the HTTP handler: what the client is sent is what the execution returned
		if hf := HTTPSameFail(in, fc); hf != nil {
			res.Fails = append(res.Fails, *hf)
		}
	}
	if len(res.Fails) == 0 && i%3 == 0 && repeat == 0 && !fc.Out.PlanErr && !fc.Out.PlanHung && !fc.Out.Hung && fc.Out.Panicked == nil {
		// L2: the executor's data path (join ids, node stripping, insertion points, stitching) against the executor model
		xf, note := ExecCorr(c, in)
		res.Fails = append(res.Fails, xf...)
		if note != "" {
			res.Counters["exec_model_"+note]++
		}
	}
	if len(res.Fails) == 0 && i%8 == 0 {
		// the same transparency when the plan is not made for this request but reused (plan cache, kept plan list)
		ts := reuseTemplatesFor("node-variable-id", "optional-variable-dependent-step", "optional-variable-on-gateway-field")
		res.Fails = append(res.Fails, ReuseCheck(c, c.Rand(i+85000000), ts[(i/8)%len(ts)], "L0.mono-reuse")...)
	}
	if i%97 == 0 || i < 2 {
		res.Sample = map[string]interface{}{"query": in.Query, "services": in.Spec.Order, "priorities": in.Spec.Priorities, "vars": in.Vars, "calls": fc.Fed.TotalCalls()}
	}
	return res
}

// HTTPSameFail sends the case's request through GraphQLHandler (a fresh gateway over the same store) and compares the
// body with what Gateway.Execute returned for it: the same data, the same error messages
func HTTPSameFail(in FedInput, fc *FedCase) *Failure {
	f, err := NewFed(in.Spec, fc.Store)
	if err != nil {
		return nil
	}
	body, _ := json.Marshal(map[string]interface{}{"query": in.Query, "variables": in.Vars, "operationName": in.OpName})
	rec, p := HTTPCase{Method: "POST", Target: "/graphql", ContentType: "application/json", Body: string(body)}.Serve(f.GW)
	if p != nil {
		return &Failure{Channel: "crash", Classifier: "unclassified", What: fmt.Sprint("the HTTP handler panicked: ", p), Input: in}
	}
	var parsed struct {
		Data   interface{} `json:"data"`
		Errors []struct {
			Message string `json:"message"`
		} `json:"errors"`
	}
	dec := json.NewDecoder(strings.NewReader(rec.Body.String()))
	dec.UseNumber()
	if err := dec.Decode(&parsed); err != nil {
		return &Failure{Channel: "L0.http-same", Classifier: "unclassified", What: "the HTTP body is not JSON: " + firstLine(err.Error()), Input: in, Observed: truncate(rec.Body.String(), 400)}
	}
	var msgs []string
	for _, e := range parsed.Errors {
		msgs = append(msgs, e.Message)
	}
	sort.Strings(msgs)
	var want interface{}
	if fc.Out.Data != nil {
		want = fc.Out.Data
	}
	if Canon(parsed.Data) != Canon(want) || fmt.Sprint(msgs) != fmt.Sprint(errMultiset(fc.Out.Err)) {
		return &Failure{Channel: "L0.http-same", Classifier: fc.Classifier(), What: "the HTTP response differs from what Gateway.Execute returns for the same request: " + diffHint(Canon(want)+fmt.Sprint(errMultiset(fc.Out.Err)), Canon(parsed.Data)+fmt.Sprint(msgs)),
			Input: in, Expected: map[string]interface{}{"data": fc.Out.Data, "errors": errMultiset(fc.Out.Err)}, Observed: map[string]interface{}{"status": rec.Code, "body": truncate(rec.Body.String(), 600)}}
	}
	return nil
}

func init() { Runners["C01"] = c01{} }
