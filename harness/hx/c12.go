package hx

import (
	"context"
	"crypto/sha256"
	"encoding/hex"
	"encoding/json"
	"fmt"
	"math/rand"
	"sync"
	"sync/atomic"
	"time"

	"github.com/nautilus/gateway"
)

// ---------------------------------------------------------------------------------------------
// C12 — the query-plan cache is transparent (cached gateway vs uncached twin vs the Lean cache model)
// ---------------------------------------------------------------------------------------------

type c12 struct{}

func (c12) Cases(tier string) int {
	n := map[string]int{"quick": 120, "search": 400, "thorough": 1200}[tier]
	if n == 0 {
		n = 120
	}
	return n
}

func (c12) Rule() string {
	return "histories of 3-12 requests over 4 query texts (3 plannable, 1 invalid) and per-history consistent keys (the sha256 of the text or a client-chosen key), each request being {text only, text+key, key only}, with idle periods longer than 4x the TTL (150 ms) between some requests; a cached gateway (AutomaticQueryPlanCache) is driven through GetPlans+Execute next to an uncached twin over the same services; every response must be what the Lean cache model says for the measured history (plan of which text / planner error / PersistedQueryNotFound) and, when a plan, the data must equal the twin's for that text; NotFound must contact no service; a request without key must come back keyed by the sha256 of its text; every third case additionally fires 8 concurrent identical misses and then a key-only hit (race detector on); histories with a gap in the ambiguous zone (TTL/5 .. 4xTTL) are discarded; non-trivial = at least one key-only request; distinct = distinct history; two of the texts carry white space around the document (the text sent is the text hashed); one case per run uses a lifetime of 3.7 s with an idle period of 3.2 s before a key-only request (an entry used within its lifetime is still there)"
}

var cacheTexts = []string{`{ me { firstName lastName } }`, `{ allUsers { firstName nick } }`, `{ topPhoto { url likes } }`, `{ nope }`,
	// two documents that differ in white space only, where it matters: a line break ends a comment
	"{ me { firstName # and\n lastName } }", "{ me { firstName # and lastName\n } }",
	// white space around a document (a heredoc, a trailing newline): the text sent is the text that is hashed
	"\n\t{ me { firstName lastName } }\n", "{ topPhoto { url likes } } \n"}

// NearTexts: documents that differ only in significant white space (the end of a comment, the inside of a string)
var NearTexts = [][2]string{
	{"{ me { firstName # and\n lastName } }", "{ me { firstName # and lastName\n } }"},
	{"{ a: user(id: \"u1\") { firstName } b: user(id: \"u 1\") { firstName } }", "{ a: user(id: \"u1\") { firstName } b: user(id: \"u  1\") { firstName } }"},
	{"{ allUsers { nick # x\n lastName } }", "{ allUsers { nick # x lastName\n } }"},
}

func shaHex(s string) string {
	h := sha256.Sum256([]byte(s))
	return hex.EncodeToString(h[:])
}

// batchKeys: a batch on a caching gateway in which some members carry a persisted-query hash and others none: every
// member is keyed by its own hash or by the sha256 of its own text, so it gets the answer it gets alone
func batchKeys(c *Ctx, r *rand.Rand) []Failure {
	store := GenStore(rand.New(rand.NewSource(5)), false)
	texts := []string{`{ me { firstName lastName } }`, `{ allUsers { firstName nick } }`, `{ topPhoto { url likes } }`, `{ me { nick } }`}
	n := 2 + r.Intn(3)
	var ops []interface{}
	var solo []string
	for k := 0; k < n; k++ {
		t := texts[r.Intn(len(texts))]
		op := map[string]interface{}{"query": t}
		if r.Intn(2) == 0 {
			op["extensions"] = map[string]interface{}{"persistedQuery": map[string]interface{}{"version": 1, "sha256Hash": shaHex(t)}}
		}
		ops = append(ops, op)
		fresh, err := NewFed(FixedFed(), store)
		if err != nil {
			return nil
		}
		o := fresh.Run(t, "", nil, 5*time.Second)
		solo = append(solo, Canon(o.Data))
	}
	cached, err := NewFed(FixedFed(), store, gateway.WithAutomaticQueryPlanCache())
	if err != nil {
		return nil
	}
	body, _ := json.Marshal(ops)
	for round := 0; round < 2; round++ {
		rec, p := HTTPCase{Method: "POST", Target: "/graphql", ContentType: "application/json", Body: string(body)}.Serve(cached.GW)
		if p != nil {
			return []Failure{{Channel: "crash", Classifier: "unclassified", What: fmt.Sprint(p), Input: ops}}
		}
		var list []map[string]interface{}
		if json.Unmarshal(rec.Body.Bytes(), &list) != nil || len(list) != n {
			return []Failure{{Channel: "L0.cache-batch", Classifier: "unclassified", What: "a batch on the caching gateway is not answered with one response per member", Input: ops, Observed: truncate(rec.Body.String(), 400)}}
		}
		for k := range list {
			if Canon(list[k]["data"]) != solo[k] {
				return []Failure{{Channel: "L0.cache-batch", Classifier: "unclassified",
					What:  fmt.Sprintf("member %d of a batch on the caching gateway (round %d) is not answered like its own text on a cache-less gateway (a member without a hash is keyed by the sha256 of ITS text)", k, round),
					Input: ops, Expected: solo[k], Observed: list[k]}}
			}
		}
	}
	return nil
}

// longTTL: a cache lifetime that is not a whole number of seconds (3.7 s), an entry used once, an idle period of 3.2 s
// (shorter than the lifetime, longer than the lifetime cut to whole seconds), then a request that carries only the
// key: the entry was used within its lifetime and must still be there. Inconclusive (skipped) when the machine made
// the idle period longer than the lifetime minus a margin.
func longTTL(c *Ctx) CaseResult {
	res := CaseResult{ID: "corpus:long-ttl-fraction-of-a-second", Key: "long-ttl", Nontrivial: true, Features: []string{"long-ttl"}}
	const ttl = 3700 * time.Millisecond
	store := GenStore(rand.New(rand.NewSource(5)), false)
	cached, err := NewFed(FixedFed(), store, gateway.WithQueryPlanCache(gateway.NewAutomaticQueryPlanCache().WithCacheTTL(ttl)))
	if err != nil {
		return res
	}
	twin, _ := NewFed(FixedFed(), store)
	text := cacheTexts[0]
	want := twin.Run(text, "", nil, 5*time.Second)
	t0 := time.Now()
	cached.CacheKey = shaHex(text)
	first := cached.Run(text, "", nil, 5*time.Second)
	if first.Err != nil || first.PlanErr {
		return res
	}
	time.Sleep(3200 * time.Millisecond)
	elapsed := time.Since(t0)
	if elapsed > ttl-300*time.Millisecond {
		res.Skipped = "idle-period-too-long-on-this-machine"
		return res
	}
	second := cached.Run("", "", nil, 5*time.Second)
	if second.PlanErr || Canon(second.Data) != Canon(want.Data) {
		res.Fails = append(res.Fails, Failure{Channel: "L0.cache-evicted-early", Classifier: "unclassified",
			What:  fmt.Sprintf("a cache lifetime of %v: an entry used %v ago is gone (a request with only its key is not answered like the cache-less gateway answers the text)", ttl, elapsed.Round(10*time.Millisecond)),
			Input: map[string]interface{}{"ttl_ms": 3700, "idle_ms": 3200, "text": text}, Expected: want.Data, Observed: map[string]interface{}{"data": second.Data, "error": ErrString(second.Err)}})
	}
	return res
}

func (c12) Run(c *Ctx, i int) CaseResult {
	if i == 1 {
		return longTTL(c)
	}
	if i%6 == 5 {
		if bf := batchKeys(c, c.Rand(i+72000000)); len(bf) > 0 {
			return CaseResult{ID: fmt.Sprintf("gen:%d", i), Nontrivial: true, Fails: bf}
		}
	}
	r := c.Rand(i + 71000000)
	const ttl = 150 * time.Millisecond
	res := CaseResult{ID: fmt.Sprintf("gen:%d", i)}
	store := GenStore(rand.New(rand.NewSource(5)), false)
	cached, err := NewFed(FixedFed(), store, gateway.WithQueryPlanCache(gateway.NewAutomaticQueryPlanCache().WithCacheTTL(ttl)))
	if err != nil {
		res.Fails = append(res.Fails, Failure{Channel: "harness", Classifier: "harness-error", What: err.Error()})
		return res
	}
	twin, _ := NewFed(FixedFed(), store)
	// per-history key of each text
	keyOf := map[string]string{}
	for _, t := range cacheTexts {
		if r.Intn(2) == 0 {
			keyOf[t] = shaHex(t)
		} else {
			keyOf[t] = fmt.Sprintf("client-key-%d", r.Intn(1000))
		}
	}
	// the twin's answers
	twinData := map[string]string{}
	plannable := map[string]interface{}{}
	shaTbl := map[string]interface{}{}
	for _, t := range cacheTexts {
		out := twin.Run(t, "", nil, 5*time.Second)
		plannable[t] = !out.PlanErr
		twinData[t] = Canon(out.Data)
		shaTbl[t] = shaHex(t)
	}
	n := 3 + r.Intn(10)
	type reqT struct {
		Text, Key string
		Idle      bool
	}
	var hist []reqT
	for j := 0; j < n; j++ {
		t := cacheTexts[r.Intn(len(cacheTexts))]
		rq := reqT{Idle: j > 0 && r.Intn(5) == 0}
		switch r.Intn(3) {
		case 0:
			rq.Text = t
		case 1:
			rq.Text, rq.Key = t, keyOf[t]
		default:
			rq.Key = keyOf[t]
		}
		hist = append(hist, rq)
	}
	res.Key = fmt.Sprint(hist)
	bad := func(channel, what string, exp, obs interface{}) {
		res.Fails = append(res.Fails, Failure{Channel: channel, Classifier: "unclassified", What: what, Input: map[string]interface{}{"history": hist, "ttl_ms": ttl.Milliseconds()}, Expected: exp, Observed: obs})
	}
	var events []interface{}
	type obsT struct {
		kind, data, key string
		calls           int
	}
	var observed []obsT
	t0 := time.Now()
	last := t0
	keyOnly := 0
	for _, rq := range hist {
		if rq.Idle {
			time.Sleep(4*ttl + 50*time.Millisecond)
		}
		now := time.Now()
		gap := now.Sub(last)
		if len(events) > 0 && gap > ttl/5 && gap < 4*ttl {
			res.Skipped = "ambiguous-timing"
			return res
		}
		ev := map[string]interface{}{"at": now.Sub(t0).Milliseconds() + 1000, "gc": gap >= 4*ttl}
		if rq.Text != "" {
			ev["query"] = rq.Text
		}
		if rq.Key != "" {
			ev["hash"] = rq.Key
		} else {
			ev["hash"] = ""
		}
		if rq.Text == "" {
			keyOnly++
		}
		events = append(events, ev)
		cached.ResetLogs()
		rc := &gateway.RequestContext{Context: context.Background(), Query: rq.Text, CacheKey: rq.Key}
		plans, perr := cached.GW.GetPlans(rc)
		o := obsT{key: rc.CacheKey}
		switch {
		case perr != nil && perr.Error() == gateway.MessageMissingCachedQuery:
			o.kind = "notFound"
		case perr != nil:
			o.kind = "planErr"
		default:
			d, _ := cached.GW.Execute(rc, plans)
			o.kind, o.data = "plan", Canon(d)
		}
		o.calls = cached.TotalCalls()
		observed = append(observed, o)
		last = time.Now()
	}
	ans, err := c.Drv.Call(map[string]interface{}{"op": "cache", "ttl": ttl.Milliseconds(), "plannable": plannable, "sha": shaTbl, "events": events})
	if err != nil {
		res.Fails = append(res.Fails, Failure{Channel: "harness", Classifier: "harness-error", What: err.Error()})
		return res
	}
	want := ans["responses"].([]interface{})
	for j, w := range want {
		wm := w.(map[string]interface{})
		o := observed[j]
		if wm["kind"] != o.kind {
			bad("L1.cache-model", fmt.Sprintf("request %d: the gateway answered %s, the model says %v", j, o.kind, wm["kind"]), want, fmt.Sprint(observed))
			break
		}
		if o.kind == "plan" {
			text := wm["text"].(string)
			if o.data != twinData[text] {
				bad("L0.cache-twin", fmt.Sprintf("request %d: data differs from the cache-less gateway's answer for %q", j, text), twinData[text], o.data)
				break
			}
		}
		if o.kind == "notFound" && o.calls != 0 {
			bad("L0.cache-calls", fmt.Sprintf("request %d: PersistedQueryNotFound but %d service requests were made", j, o.calls), 0, o.calls)
		}
		if hist[j].Key == "" && o.kind == "plan" && o.key != shaHex(hist[j].Text) {
			bad("L0.cache-key", fmt.Sprintf("request %d has no key but was not keyed by the sha256 of its text", j), shaHex(hist[j].Text), o.key)
		}
	}
	// concurrent identical misses
	if i%3 == 0 && len(res.Fails) == 0 {
		time.Sleep(4*ttl + 50*time.Millisecond) // everything expired
		text := cacheTexts[r.Intn(3)]
		key := fmt.Sprintf("conc-%d", i)
		var wg sync.WaitGroup
		results := make([]string, 8)
		tConc := time.Now()
		for k := 0; k < 8; k++ {
			wg.Add(1)
			go func(k int) {
				defer wg.Done()
				rc := &gateway.RequestContext{Context: context.Background(), Query: text, CacheKey: key}
				plans, perr := cached.GW.GetPlans(rc)
				if perr != nil {
					results[k] = "ERR " + perr.Error()
					return
				}
				d, _ := cached.GW.Execute(rc, plans)
				results[k] = Canon(d)
			}(k)
		}
		wg.Wait()
		for k := range results {
			if results[k] != twinData[text] {
				bad("L0.cache-concurrent", fmt.Sprintf("concurrent miss %d got a response that differs from the cache-less gateway's", k), twinData[text], results[k])
				break
			}
		}
		rc := &gateway.RequestContext{Context: context.Background(), Query: "", CacheKey: key}
		plans, perr := cached.GW.GetPlans(rc)
		if perr != nil {
			// an entry lives for one TTL after its last use: on a loaded machine the eight executions alone can take
			// longer than that, and then the entry is rightly gone (not a verdict on the cache)
			if time.Since(tConc) < ttl/2 {
				bad("L0.cache-concurrent", "after 8 concurrent misses the key is not cached", "plan", perr.Error())
			} else {
				res.Features = append(res.Features, "concurrent-misses-inconclusive-too-slow")
			}
		} else if d, _ := cached.GW.Execute(rc, plans); Canon(d) != twinData[text] {
			bad("L0.cache-concurrent", "the entry kept after concurrent misses is not the plan of the text", twinData[text], Canon(d))
		}
	}
	if len(res.Fails) == 0 {
		// one cached entry answering requests that differ in operation name and variable values
		ts := reuseTemplatesFor()
		for _, f := range ReuseCheck(c, c.Rand(i+82000000), ts[i%len(ts)], "L0.cache-twin") {
			if f.Channel == "L0.cache-twin.cached-plan" || f.Channel == "harness" {
				res.Fails = append(res.Fails, f)
			}
		}
	}
	if i%3 == 1 && len(res.Fails) == 0 {
		// concurrent requests WITHOUT a key for DIFFERENT texts, overlapping inside the planner: each gets the answer
		// of its own text
		time.Sleep(4*ttl + 50*time.Millisecond)
		atomic.StoreInt64(&cached.PlanDelayNanos, int64(3*time.Millisecond))
		texts := []string{cacheTexts[0], cacheTexts[1], cacheTexts[2], cacheTexts[0], cacheTexts[2], cacheTexts[1]}
		var wg sync.WaitGroup
		results := make([]string, len(texts))
		for k := range texts {
			wg.Add(1)
			go func(k int) {
				defer wg.Done()
				rc := &gateway.RequestContext{Context: context.Background(), Query: texts[k]}
				plans, perr := cached.GW.GetPlans(rc)
				if perr != nil {
					results[k] = "ERR " + perr.Error()
					return
				}
				d, _ := cached.GW.Execute(rc, plans)
				results[k] = Canon(d)
			}(k)
		}
		wg.Wait()
		atomic.StoreInt64(&cached.PlanDelayNanos, 0)
		for k := range results {
			if results[k] != twinData[texts[k]] {
				bad("L0.cache-concurrent", fmt.Sprintf("concurrent key-less request %d for %q got a response that differs from the cache-less gateway's", k, texts[k]), twinData[texts[k]], results[k])
				break
			}
		}
	}
	res.Nontrivial = keyOnly > 0
	res.Counters = map[string]int{"requests": len(hist), "key_only": keyOnly}
	if i%13 == 0 {
		res.Sample = map[string]interface{}{"history": hist, "model": want}
	}
	return res
}

func init() { Runners["C12"] = c12{} }
