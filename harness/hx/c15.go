package hx

import (
	"bytes"
	"context"
	"encoding/json"
	"fmt"
	"math/rand"
	"mime/multipart"
	"net/http"
	"net/http/httptest"
	"net/url"
	"strings"
	"sync/atomic"
	"time"

	"github.com/nautilus/gateway"
)

// ---------------------------------------------------------------------------------------------
// C15 — the HTTP endpoint never crashes and always speaks GraphQL-over-HTTP
// ---------------------------------------------------------------------------------------------

type c15 struct{}

// HTTPCase is a replayable request.
type HTTPCase struct {
	Method      string            `json:"method"`
	Target      string            `json:"target"`
	ContentType string            `json:"content_type"`
	Body        string            `json:"body"`
	Form        map[string]string `json:"form,omitempty"`  // multipart fields
	Files       map[string]string `json:"files,omitempty"` // multipart file parts: field name -> content
	Playground  bool              `json:"playground,omitempty"`
}

var c15Corpus = []struct {
	ID string
	C  HTTPCase
}{
	{"D32-body-null", HTTPCase{Method: "POST", Target: "/graphql", ContentType: "application/json", Body: `null`}},
	{"D32-batch-null", HTTPCase{Method: "POST", Target: "/graphql", ContentType: "application/json", Body: `[null]`}},
	{"D32-batch-op-null", HTTPCase{Method: "POST", Target: "/graphql", ContentType: "application/json", Body: `[{"query":"{ me { firstName } }"}, null]`}},
	{"D33-batch-path-only-index", HTTPCase{Method: "POST", Target: "/graphql", Form: map[string]string{"operations": `[{"query":"{ me { firstName } }","variables":{"f":null}}]`, "map": `{"0":["0"]}`}, Files: map[string]string{"0": "x"}}},
	{"D33-batch-index-out-of-range", HTTPCase{Method: "POST", Target: "/graphql", Form: map[string]string{"operations": `[{"query":"{ me { firstName } }","variables":{"f":null}}]`, "map": `{"0":["7.variables.f"]}`}, Files: map[string]string{"0": "x"}}},
	{"D33-batch-index-negative", HTTPCase{Method: "POST", Target: "/graphql", Form: map[string]string{"operations": `[{"query":"{ me { firstName } }","variables":{"f":null}}]`, "map": `{"0":["-1.variables.f"]}`}, Files: map[string]string{"0": "x"}}},
	{"D33-list-index-negative", HTTPCase{Method: "POST", Target: "/graphql", Form: map[string]string{"operations": `{"query":"{ me { firstName } }","variables":{"fs":[null]}}`, "map": `{"0":["variables.fs.-1"]}`}, Files: map[string]string{"0": "x"}}},
	{"empty-path", HTTPCase{Method: "POST", Target: "/graphql", Form: map[string]string{"operations": `{"query":"{ me { firstName } }","variables":{"f":null}}`, "map": `{"0":[""]}`}, Files: map[string]string{"0": "x"}}},
	{"blank-body-space", HTTPCase{Method: "POST", Target: "/graphql", ContentType: "application/json", Body: " "}},
	{"blank-body-newline", HTTPCase{Method: "POST", Target: "/graphql", ContentType: "text/plain", Body: "\n"}},
	{"blank-multipart-operations", HTTPCase{Method: "POST", Target: "/graphql", Form: map[string]string{"operations": " \n", "map": `{"0":["variables.f"]}`}, Files: map[string]string{"0": "x"}}},
	{"get-ok", HTTPCase{Method: "GET", Target: "/graphql?query=" + url.QueryEscape(`{ me { firstName } }`)}},
	{"get-bad-variables-good-extensions", HTTPCase{Method: "GET", Target: "/graphql?query=" + url.QueryEscape(`{ me { firstName } }`) + "&variables=true&extensions=" + url.QueryEscape(`{}`)}},
	{"get-bad-variables", HTTPCase{Method: "GET", Target: "/graphql?query=" + url.QueryEscape(`{ me { firstName } }`) + "&variables=[1]"}},
	{"put", HTTPCase{Method: "PUT", Target: "/graphql", Body: `{}`}},
	{"post-unknown-content-type", HTTPCase{Method: "POST", Target: "/graphql", ContentType: "application/xml", Body: `<a/>`}},
	{"post-batch-mixed", HTTPCase{Method: "POST", Target: "/graphql", ContentType: "application/json", Body: `[{"query":"{ me { firstName } }"},{"query":"{ nope }"}]`}},
	{"post-number", HTTPCase{Method: "POST", Target: "/graphql", ContentType: "application/json", Body: `5`}},
	{"post-query-wrong-type", HTTPCase{Method: "POST", Target: "/graphql", ContentType: "application/json", Body: `{"query": 5}`}},
	{"post-persisted-unknown-hash", HTTPCase{Method: "POST", Target: "/graphql", ContentType: "application/json", Body: `{"extensions":{"persistedQuery":{"version":1,"sha256Hash":"abc"}}}`}},
}

func (c15) Cases(tier string) int {
	n := map[string]int{"quick": 2500, "search": 6000, "thorough": 40000}[tier]
	if n == 0 {
		n = 2500
	}
	return len(c15Corpus) + n
}

func (c15) Rule() string {
	return "corpus (null bodies, null batch members, multipart index corner cases, wrong methods/content types) then generated requests: methods {GET, POST, PUT, DELETE, OPTIONS, PATCH, HEAD}, content types {json, text/plain, empty, multipart, xml, with parameters}, query strings with valid/invalid/missing query, variables, operationName, extensions; bodies from a JSON grammar aimed at the operation shape (null, numbers, strings, arrays containing null, wrong field types, deep nesting, keys in other letter case) and byte noise; multipart layouts with valid and invalid operations/map/paths/files; through GraphQLHandler and PlaygroundHandler with httptest; checked: no panic, the body is JSON and is a GraphQL response (object with data and/or errors) or a list of them, a request that did not serve any operation has a 4xx status, a non-empty errors entry and made no service request; non-trivial = the request reaches operation parsing; distinct = distinct request; multipart positions around 2^31, 2^32, 2^63 and 2^64"
}

func genJSONValue(r *rand.Rand, depth int) interface{} {
	switch k := r.Intn(9); {
	case k == 0:
		return nil
	case k == 1:
		return r.Intn(2) == 0
	case k == 2:
		return r.Intn(100) - 5
	case k == 3:
		return []string{"", "x", "{ me { firstName } }", "variables", "0"}[r.Intn(5)]
	case k < 6 && depth > 0:
		n := r.Intn(3)
		l := make([]interface{}, n)
		for i := range l {
			l[i] = genJSONValue(r, depth-1)
		}
		return l
	case depth > 0:
		m := map[string]interface{}{}
		for i := 0; i < r.Intn(3); i++ {
			m[[]string{"a", "b", "file", "files", "query", "0"}[r.Intn(6)]] = genJSONValue(r, depth-1)
		}
		return m
	}
	return nil
}

var httpQueries = []string{`{ me { firstName } }`, `{ me { firstName lastName } }`, `{ nope }`, `{ me { `, ``, `query A { me { firstName } } query B { allUsers { lastName } }`, `mutation { bump(id: "u1") { firstName } }`,
	// operations with variables, also on the gateway's own fields; the variables object may give all, some or none
	// of them, or values of another kind
	`query V($n: String!) { __type(name: $n) { name kind } }`, `query V($id: ID!) { node(id: $id) { id } }`,
	`query V($id: ID!, $s: Boolean!) { user(id: $id) { firstName lastName @include(if: $s) } }`,
	`query V($s: Boolean = true, $n: String) { __schema { queryType { name } } __type(name: $n) { name } me { firstName lastName @skip(if: $s) } }`,
	`{ __type(name: "User") { name fields { name } } __schema { types { name } } }`,
	// text that comes back in the response (echoed by error messages, or as data) and means something to a formatter
	`{ me { firstName(discount: "50%") } }`, `{ user(id: "100%d %s %v") { firstName } }`, `query P { me { nick%s } }`}

var httpVariables = []interface{}{map[string]interface{}{"n": "User"}, map[string]interface{}{"n": nil}, map[string]interface{}{"id": "u1", "s": true},
	map[string]interface{}{"id": 5}, map[string]interface{}{"s": "x", "n": 7}, map[string]interface{}{"id": "u2"}, map[string]interface{}{}, nil,
	map[string]interface{}{"id": []interface{}{"u1"}, "s": nil, "n": map[string]interface{}{"a": 1}}}

func genOperation(r *rand.Rand) interface{} {
	switch r.Intn(12) {
	case 0:
		return nil
	case 1:
		return genJSONValue(r, 2)
	}
	op := map[string]interface{}{}
	key := func(k string) string {
		if r.Intn(12) == 0 {
			return strings.ToUpper(k[:1]) + k[1:]
		}
		return k
	}
	if r.Intn(8) != 0 {
		op[key("query")] = httpQueries[r.Intn(len(httpQueries))]
	}
	if r.Intn(10) == 0 {
		op[key("query")] = genJSONValue(r, 1)
	}
	if r.Intn(3) == 0 {
		op[key("variables")] = map[string]interface{}{"f": nil, "fs": []interface{}{nil, nil}, "o": map[string]interface{}{"f": nil}, "s": "x"}
	}
	if r.Intn(4) == 0 {
		op[key("variables")] = httpVariables[r.Intn(len(httpVariables))]
	}
	if r.Intn(12) == 0 {
		op[key("variables")] = genJSONValue(r, 2)
	}
	if r.Intn(4) == 0 {
		op[key("operationName")] = []interface{}{"A", "B", "", "Zzz", 7, nil, "100%", "%d%s%!"}[r.Intn(8)]
	}
	if r.Intn(6) == 0 {
		op[key("extensions")] = []interface{}{map[string]interface{}{"persistedQuery": map[string]interface{}{"version": 1, "sha256Hash": "deadbeef"}}, map[string]interface{}{"persistedQuery": nil}, nil, 5, map[string]interface{}{"persistedQuery": map[string]interface{}{"sha256Hash": 9}}}[r.Intn(5)]
	}
	return op
}

func genHTTPCase(r *rand.Rand) HTTPCase {
	hc := HTTPCase{Target: "/graphql"}
	hc.Playground = r.Intn(6) == 0
	switch k := r.Intn(20); {
	case k < 4: // GET
		hc.Method = "GET"
		v := url.Values{}
		if r.Intn(6) != 0 {
			v.Set("query", httpQueries[r.Intn(len(httpQueries))])
		}
		if r.Intn(2) == 0 {
			v.Set("variables", []string{`{"a":1}`, `[1]`, `null`, `{`, `"x"`, `true`, `{}`, `{"n":"User"}`, `{"id":"u1","s":false}`, `{"id":5,"n":null}`}[r.Intn(10)])
		}
		if r.Intn(4) == 0 {
			v.Set("operationName", []string{"A", "B", "Zzz", "", "100%"}[r.Intn(5)])
		}
		if r.Intn(3) == 0 {
			v.Set("extensions", []string{`{"persistedQuery":{"version":1,"sha256Hash":"deadbeef"}}`, `null`, `{`, `5`, `{"persistedQuery":null}`, `{}`}[r.Intn(6)])
		}
		hc.Target = "/graphql?" + v.Encode()
	case k < 6: // other methods
		hc.Method = []string{"PUT", "DELETE", "OPTIONS", "PATCH", "HEAD"}[r.Intn(5)]
		hc.Body = `{"query":"{ me { firstName } }"}`
	case k < 14: // POST json
		hc.Method = "POST"
		hc.ContentType = []string{"application/json", "application/json; charset=utf-8", "text/plain", "", "application/xml", "application/graphql", ";",
			// request text that is echoed into the error message, looking like the messages the handler rewrites
			"application/graphql into Go json: v1", "json: into Go type", "text/plain; x=\"json: cannot unmarshal into Go value\"", "%s%d%!", "a\"b\\c"}[r.Intn(12)]
		var body interface{}
		switch r.Intn(6) {
		case 0, 1, 2:
			body = genOperation(r)
		case 3, 4:
			n := r.Intn(4)
			l := make([]interface{}, n)
			for i := range l {
				l[i] = genOperation(r)
			}
			body = l
		default:
			body = genJSONValue(r, 3)
		}
		b, _ := json.Marshal(body)
		hc.Body = string(b)
		if r.Intn(10) == 0 { // noise
			nb := make([]byte, r.Intn(40))
			for i := range nb {
				nb[i] = "{}[]\":,nulltruefalse0123 \\x"[r.Intn(27)]
			}
			hc.Body = string(nb)
		}
		if r.Intn(25) == 0 {
			// nothing but white space (or nothing at all), also around an otherwise valid payload
			hc.Body = []string{" ", "\n", "\t \r\n ", "", "  [ ]  ", " \n{\"query\":\"{ me { firstName } }\"}\n ", "\n[{\"query\":\"{ me { firstName } }\"}] "}[r.Intn(7)]
		}
	default: // multipart
		hc.Method = "POST"
		batch := r.Intn(3) == 0
		mk := func() interface{} {
			return map[string]interface{}{"query": `{ me { firstName } }`, "variables": map[string]interface{}{"f": nil, "fs": []interface{}{nil, nil}, "o": map[string]interface{}{"f": nil, "l": []interface{}{map[string]interface{}{"f": nil}}}, "s": "x", "nested": []interface{}{[]interface{}{nil}}}}
		}
		var ops interface{} = mk()
		if batch {
			ops = []interface{}{mk(), mk()}
		}
		if r.Intn(10) == 0 {
			ops = genOperation(r)
		}
		ob, _ := json.Marshal(ops)
		paths := []string{"variables.f", "variables.fs.0", "variables.fs.1", "variables.o.f", "variables.o.l.0.f", "variables.nested.0.0", "variables.s", "variables.fs", "variables.fs.2", "variables.fs.-1", "variables.fs.x",
			"variables.missing", "variables", "", "variables.o", "vars.f", "variables.f.g", "variables.fs.+1", "variables.fs.01", "variables.fs.-0", "variables..f", "0", "-1.variables.f", "9.variables.f",
			// indexes around the limits of the machine's integers
			"variables.fs.9223372036854775807", "variables.fs.9223372036854775808", "variables.fs.18446744073709551615", "variables.fs.18446744073709551616", "variables.fs.-9223372036854775808",
			"variables.nested.0.18446744073709551615", "18446744073709551615.variables.f", "9223372036854775808.variables.f", "4294967296.variables.f", "variables.fs.4294967297"}
		m := map[string][]string{}
		nfiles := 1 + r.Intn(2)
		for fi := 0; fi < nfiles; fi++ {
			var ps []string
			for j := 0; j < 1+r.Intn(2); j++ {
				p := paths[r.Intn(len(paths))]
				if batch && r.Intn(5) != 0 {
					p = fmt.Sprintf("%d.%s", r.Intn(3), p)
				}
				ps = append(ps, p)
			}
			m[fmt.Sprint(fi)] = ps
		}
		mb, _ := json.Marshal(m)
		hc.Form = map[string]string{"operations": string(ob), "map": string(mb)}
		if r.Intn(30) == 0 {
			hc.Form["operations"] = []string{" ", "\n", "", " \t "}[r.Intn(4)]
		}
		switch r.Intn(12) {
		case 0:
			hc.Form["map"] = `{`
		case 1:
			delete(hc.Form, "map")
		case 2:
			delete(hc.Form, "operations")
		case 3:
			hc.Form["map"] = `{"0": "variables.f"}`
		}
		hc.Files = map[string]string{}
		for fi := 0; fi < nfiles; fi++ {
			if r.Intn(10) != 0 {
				hc.Files[fmt.Sprint(fi)] = fmt.Sprintf("content-%d", fi)
			}
		}
	}
	return hc
}

// BuildRequest turns a case into an *http.Request.
func (hc HTTPCase) BuildRequest() *http.Request {
	var body *bytes.Buffer = bytes.NewBufferString(hc.Body)
	ct := hc.ContentType
	if hc.Form != nil || hc.Files != nil {
		body = &bytes.Buffer{}
		w := multipart.NewWriter(body)
		for _, k := range []string{"operations", "map"} {
			if v, ok := hc.Form[k]; ok {
				w.WriteField(k, v)
			}
		}
		for k, v := range hc.Files {
			fw, _ := w.CreateFormFile(k, "file-"+k+".txt")
			fw.Write([]byte(v))
		}
		w.Close()
		ct = w.FormDataContentType()
	}
	req := httptest.NewRequest(hc.Method, hc.Target, body)
	if ct != "" {
		req.Header.Set("Content-Type", ct)
	}
	return req
}

// Serve runs the request through the handler, catching a panic on the handler's goroutine.
func (hc HTTPCase) Serve(gw *gateway.Gateway) (rec *httptest.ResponseRecorder, panicked interface{}) {
	rec = httptest.NewRecorder()
	defer func() {
		if r := recover(); r != nil {
			panicked = r
		}
	}()
	if hc.Playground {
		gw.PlaygroundHandler(rec, hc.BuildRequest())
	} else {
		gw.GraphQLHandler(rec, hc.BuildRequest())
	}
	return rec, nil
}

// responseShape classifies a body: "entry", "list", or a description of what is wrong.
func responseShape(body []byte) (shape string, entries []map[string]interface{}) {
	var v interface{}
	if err := json.Unmarshal(body, &v); err != nil {
		return "not JSON: " + firstLine(err.Error()), nil
	}
	isEntry := func(x interface{}) (map[string]interface{}, bool) {
		m, ok := x.(map[string]interface{})
		if !ok {
			return nil, false
		}
		_, hd := m["data"]
		_, he := m["errors"]
		return m, hd || he
	}
	switch x := v.(type) {
	case map[string]interface{}:
		m, ok := isEntry(x)
		if !ok {
			return "object without data or errors", nil
		}
		return "entry", []map[string]interface{}{m}
	case []interface{}:
		for _, e := range x {
			m, ok := isEntry(e)
			if !ok {
				return "list with an element that is not a GraphQL response", nil
			}
			entries = append(entries, m)
		}
		return "list", entries
	}
	return fmt.Sprintf("JSON %T", v), nil
}

// idleCache: a caching gateway with a short lifetime of its entries answers a request, is left alone for several
// lifetimes (the cache cleans up meanwhile) and answers again
func idleCache(c *Ctx, i int) CaseResult {
	res := CaseResult{ID: fmt.Sprintf("gen:%d", i), Features: []string{"idle-plan-cache"}, Nontrivial: true}
	store := GenStore(rand.New(rand.NewSource(5)), false)
	f, err := NewFed(FixedFed(), store, gateway.WithQueryPlanCache(gateway.NewAutomaticQueryPlanCache().WithCacheTTL(25*time.Millisecond)))
	if err != nil {
		return res
	}
	for k, q := range []string{`{"query":"{ me { firstName } }"}`, `{"query":"{ allUsers { lastName } }"}`, `{"query":"{ me { firstName } }"}`} {
		hc := HTTPCase{Method: "POST", Target: "/graphql", ContentType: "application/json", Body: q}
		rec, p := hc.Serve(f.GW)
		if p != nil || rec.Code != 200 || !strings.Contains(rec.Body.String(), `"data"`) {
			res.Fails = append(res.Fails, Failure{Channel: "L0.http", Classifier: "unclassified", What: fmt.Sprintf("request %d to a caching gateway that had been idle is not answered with data (status %d, panic %v)", k, rec.Code, p), Input: hc,
				Observed: truncate(rec.Body.String(), 300)})
			return res
		}
		time.Sleep(90 * time.Millisecond)
	}
	return res
}

func (c15) Run(c *Ctx, i int) CaseResult {
	if i >= len(c15Corpus) && i%60 == 17 {
		return idleCache(c, i)
	}
	var hc HTTPCase
	id := ""
	if i < len(c15Corpus) {
		hc, id = c15Corpus[i].C, "corpus:"+c15Corpus[i].ID
	} else {
		hc, id = genHTTPCase(c.Rand(i+31000000)), fmt.Sprintf("gen:%d", i)
	}
	b, _ := json.Marshal(hc)
	res := CaseResult{ID: id, Key: string(b)}
	store := GenStore(rand.New(rand.NewSource(5)), false)
	cx := &countExec{Inner: &gateway.ParallelExecutor{}}
	f, err := NewFed(FixedFed(), store, gateway.WithExecutor(cx))
	if err != nil {
		res.Fails = append(res.Fails, Failure{Channel: "harness", Classifier: "harness-error", What: err.Error()})
		return res
	}
	rec, panicked := hc.Serve(f.GW)
	bad := func(channel, what string) {
		res.Fails = append(res.Fails, Failure{Channel: channel, Classifier: "unclassified", What: what, Input: hc, Observed: map[string]interface{}{"status": rec.Code, "body": truncate(rec.Body.String(), 600)}})
	}
	feat := map[string]bool{"method:" + hc.Method: true}
	if hc.Form != nil || hc.Files != nil {
		feat["multipart"] = true
	}
	if hc.Playground {
		feat["playground"] = true
	}
	if panicked != nil {
		bad("crash", fmt.Sprintf("the handler panicked: %v", panicked))
		res.Features = FeatList(feat)
		return res
	}
	calls := f.TotalCalls()
	if hc.Playground && hc.Method != "POST" {
		// the playground UI: HTML, not a GraphQL response
		feat["playground-ui"] = true
		res.Features = FeatList(feat)
		if calls != 0 {
			bad("L0.http", "the playground UI request contacted a service")
		}
		return res
	}
	res.Nontrivial = hc.Method == "GET" || hc.Method == "POST"
	shape, entries := responseShape(rec.Body.Bytes())
	feat[fmt.Sprintf("status:%d", rec.Code)] = true
	feat["shape:"+strings.SplitN(shape, ":", 2)[0]] = true
	res.Features = FeatList(feat)
	if shape != "entry" && shape != "list" {
		if !(hc.Method == "HEAD") {
			bad("L0.http-shape", "the body is not a GraphQL response: "+shape)
		}
		return res
	}
	served := 0
	for _, e := range entries {
		if d, ok := e["data"]; ok && d != nil {
			served++
		}
	}
	opNameOnly := len(entries) > 0
	for _, e := range entries {
		txt := fmt.Sprint(e["errors"])
		if !strings.Contains(txt, "please provide an operation name") && !strings.Contains(txt, "could not find query for operation") {
			opNameOnly = false
		}
	}
	if served == 0 && len(entries) > 0 {
		// nothing was served: a malformed or unplannable request gets 4xx, errors, and no service is contacted.
		// Two kinds of unserved requests legitimately keep status 200: operations that were planned and failed
		// while executing (services were contacted, or the executor was run: the gateway's own fields fail without
		// contacting anybody), and a wrong/missing operationName, which the gateway
		// reports as a GraphQL error entry (no service may be contacted for it, checked below).
		executed := atomic.LoadInt64(&cx.N)
		if (rec.Code < 400 || rec.Code > 499) && !((calls > 0 || executed > 0) && rec.Code == 200) && !(opNameOnly && rec.Code == 200) {
			bad("L0.http-status", fmt.Sprintf("no operation was served but the status is %d", rec.Code))
		}
		if opNameOnly && calls != 0 {
			bad("L0.http-calls", fmt.Sprintf("the operation name selects nothing but %d service requests were made", calls))
		}
		for _, e := range entries {
			if el, ok := e["errors"].([]interface{}); !ok || len(el) == 0 {
				bad("L0.http-errors", "an unserved operation has no errors entry")
			}
		}
		if calls != 0 && len(entries) <= 1 {
			// an operation can fail at execution time after contacting services; that is not "malformed or unplannable"
			if rec.Code == 400 || rec.Code == 422 || rec.Code == 405 {
				bad("L0.http-calls", fmt.Sprintf("the request was refused with %d but %d service requests were made", rec.Code, calls))
			}
		}
	}
	// GET: a `variables` parameter that is not a JSON object (or null), or an `extensions` parameter that is not
	// JSON or is a scalar/array, makes the request malformed whatever the other parameters are
	if hc.Method == "GET" && !hc.Playground {
		if why := getMalformed(hc.Target); why != "" {
			if rec.Code < 400 || rec.Code > 499 || served != 0 || calls != 0 {
				bad("L0.http-status", fmt.Sprintf("malformed GET request (%s) answered with status %d, %d served operations, %d service requests", why, rec.Code, served, calls))
			}
		}
	}
	if rec.Code >= 400 && rec.Code != 422 && calls != 0 {
		bad("L0.http-calls", fmt.Sprintf("the request was refused with %d but %d service requests were made", rec.Code, calls))
	}
	// L2: the JSON request path against the Lean model of parseOperations + the handler's decisions
	ct := strings.SplitN(hc.ContentType, ";", 2)[0]
	if c.Drv != nil && hc.Method == "POST" && hc.Form == nil && hc.Files == nil && (ct == "application/json" || ct == "text/plain" || ct == "") {
		if d := httpModelDiff(c, f, hc, rec.Code, shape, entries); d != "" {
			bad("L2.http-model", d)
		} else {
			res.Counters = map[string]int{"model_compared": 1}
		}
	}
	// L2: the front of the handler (method, content type, GET parameters) against Http.parseReq
	if c.Drv != nil && !hc.Playground && hc.Form == nil && hc.Files == nil && ct != "multipart/form-data" &&
		(hc.Method != "POST" || !(ct == "application/json" || ct == "text/plain" || ct == "")) && hc.Method != "HEAD" && hc.Method != "OPTIONS" {
		if d := httpFrontDiff(c, f, hc, rec.Code, shape, entries); d != "" {
			bad("L2.http-front", d)
		} else {
			if res.Counters == nil {
				res.Counters = map[string]int{}
			}
			res.Counters["front_model_compared"]++
		}
	}
	if i%307 == 0 || i < 3 {
		res.Sample = map[string]interface{}{"request": hc, "status": rec.Code, "shape": shape, "service_calls": calls}
	}
	return res
}

// httpModelDiff asks the model what the request decodes to, evaluates every operation on its own through the
// gateway (plannable? executes with data?), and compares status, shape and entry kinds with the model's answer.
func httpModelDiff(c *Ctx, f *Fed, hc HTTPCase, status int, shape string, entries []map[string]interface{}) string {
	var body interface{}
	valid := json.Unmarshal([]byte(hc.Body), &body) == nil
	ans, err := c.Drv.Call(map[string]interface{}{"op": "http-parse", "valid": valid, "body": body})
	if err != nil {
		return "harness: " + err.Error()
	}
	if ans["err"] != nil {
		if status != 422 || shape != "entry" {
			return fmt.Sprintf("the model rejects the body at parsing (422, one errors entry); the handler answered %d %s", status, shape)
		}
		return ""
	}
	return httpRespondDiff(c, f, ans, bodyVariables(hc.Body), status, shape, entries)
}

// httpFrontDiff: the front of the handler (method, content type, GET parameters) against Http.parseReq, then the
// handler's decisions as for POST
func httpFrontDiff(c *Ctx, f *Fed, hc HTTPCase, status int, shape string, entries []map[string]interface{}) string {
	param := func(s string, firstValueOnly bool) map[string]interface{} {
		var v interface{}
		var err error
		if firstValueOnly {
			// json.Decoder.Decode reads one value and does not look at what follows it
			err = json.NewDecoder(strings.NewReader(s)).Decode(&v)
		} else {
			err = json.Unmarshal([]byte(s), &v)
		}
		return map[string]interface{}{"valid": err == nil, "json": v}
	}
	get := map[string]interface{}{}
	if u, err := url.Parse(hc.Target); err == nil {
		q := u.Query()
		if vs, ok := q["query"]; ok {
			get["query"] = vs[0]
		}
		if vs, ok := q["operationName"]; ok {
			get["operationName"] = vs[0]
		}
		if vs, ok := q["variables"]; ok {
			get["variables"] = param(vs[0], false)
		}
		if vs, ok := q["extensions"]; ok {
			get["extensions"] = param(vs[0], true)
		}
	}
	ct := strings.SplitN(hc.ContentType, ";", 2)[0]
	ctype := "unknown"
	if ct == "application/json" || ct == "text/plain" || ct == "" {
		ctype = "json"
	}
	var body interface{}
	valid := json.Unmarshal([]byte(hc.Body), &body) == nil
	ans, err := c.Drv.Call(map[string]interface{}{"op": "http-req-parse", "method": hc.Method, "ctype": ctype, "get": get,
		"body": map[string]interface{}{"valid": valid, "json": body}})
	if err != nil {
		return "harness: " + err.Error()
	}
	if ans["err"] != nil {
		want := int(numOf(ans["err"]))
		if status != want || shape != "entry" {
			return fmt.Sprintf("the model refuses the request with %d and one errors entry; the handler answered %d %s", want, status, shape)
		}
		return ""
	}
	vars := bodyVariables(hc.Body)
	if hc.Method == "GET" {
		vars = nil
		if u, err := url.Parse(hc.Target); err == nil {
			if vs, ok := u.Query()["variables"]; ok {
				var m map[string]interface{}
				if json.Unmarshal([]byte(vs[0]), &m) == nil {
					vars = []map[string]interface{}{m}
				}
			}
		}
	}
	return httpRespondDiff(c, f, ans, vars, status, shape, entries)
}

func httpRespondDiff(c *Ctx, f *Fed, ans map[string]interface{}, vars []map[string]interface{}, status int, shape string, entries []map[string]interface{}) string {
	ops := ans["ops"].([]interface{})
	var items []interface{}
	for k, o := range ops {
		om := o.(map[string]interface{})
		var opVars map[string]interface{}
		if k < len(vars) {
			opVars = vars[k]
		}
		q, _ := om["query"].(string)
		name, _ := om["operationName"].(string)
		hash, _ := om["hash"].(string)
		item := map[string]interface{}{"query": q, "operationName": name, "hash": hash, "plannable": false, "execOK": false}
		if !(q == "" && hash == "") {
			f2, err := NewFed(FixedFed(), f.Store)
			if err != nil {
				return "harness: " + err.Error()
			}
			rc := &gateway.RequestContext{Context: context.Background(), Query: q, OperationName: name, CacheKey: hash, Variables: opVars}
			plans, perr := f2.GW.GetPlans(rc)
			if perr == nil {
				item["plannable"] = true
				d, eerr := f2.GW.Execute(rc, plans)
				item["execOK"] = eerr == nil || d != nil
			}
		}
		items = append(items, item)
	}
	ans2, err := c.Drv.Call(map[string]interface{}{"op": "http-respond", "ops": items, "batch": ans["batch"]})
	if err != nil {
		return "harness: " + err.Error()
	}
	wantStatus, _ := ans2["status"].(json.Number).Int64()
	if int(wantStatus) != status {
		return fmt.Sprintf("status %d, the model says %d", status, wantStatus)
	}
	if ans2["shape"] != shape {
		return fmt.Sprintf("body is a %s, the model says %s", shape, ans2["shape"])
	}
	want := ans2["entries"].([]interface{})
	if len(want) != len(entries) {
		return fmt.Sprintf("%d entries, the model says %d", len(entries), len(want))
	}
	for k, e := range entries {
		kind := "errors"
		if d, ok := e["data"]; ok && d != nil {
			kind = "data"
		}
		if kind != want[k] {
			return fmt.Sprintf("entry %d is a %s entry, the model says %s", k, kind, want[k])
		}
	}
	return ""
}

// countExec counts the executions handed to the executor (an operation that got that far was planned)
type countExec struct {
	Inner gateway.Executor
	N     int64
}

func (c *countExec) Execute(ctx *gateway.ExecutionContext) (map[string]interface{}, error) {
	atomic.AddInt64(&c.N, 1)
	return c.Inner.Execute(ctx)
}

// bodyVariables: the variables of each operation of a JSON body, decoded the way the handler decodes them
func bodyVariables(body string) []map[string]interface{} {
	type op struct {
		Variables map[string]interface{} `json:"variables"`
	}
	var one op
	if json.Unmarshal([]byte(body), &one) == nil {
		return []map[string]interface{}{one.Variables}
	}
	var many []*op
	var out []map[string]interface{}
	if json.Unmarshal([]byte(body), &many) == nil {
		for _, o := range many {
			if o == nil {
				out = append(out, nil)
			} else {
				out = append(out, o.Variables)
			}
		}
	}
	return out
}

func truncate(s string, n int) string {
	if len(s) > n {
		return s[:n] + "…"
	}
	return s
}

func init() { Runners["C15"] = c15{} }

// getMalformed: a reason why the query string of a GET request is malformed, or "" (an under-approximation: only
// what is malformed beyond doubt)
func getMalformed(target string) string {
	u, err := url.Parse(target)
	if err != nil {
		return ""
	}
	q := u.Query()
	if vs, ok := q["variables"]; ok {
		var v interface{}
		if err := json.Unmarshal([]byte(vs[0]), &v); err != nil {
			return "variables is not JSON"
		}
		if _, isObj := v.(map[string]interface{}); v != nil && !isObj {
			return "variables is not a JSON object"
		}
	}
	if es, ok := q["extensions"]; ok {
		var v interface{}
		if err := json.Unmarshal([]byte(es[0]), &v); err != nil {
			return "extensions is not JSON"
		}
		if _, isObj := v.(map[string]interface{}); v != nil && !isObj {
			return "extensions is not a JSON object"
		}
	}
	return ""
}
