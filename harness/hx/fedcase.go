package hx

import (
	"context"
	"fmt"
	"math/rand"
	"sort"
	"strings"
	"sync/atomic"
	"time"

	"github.com/nautilus/gateway"
	"github.com/nautilus/graphql"
	"github.com/vektah/gqlparser/v2"
	"github.com/vektah/gqlparser/v2/ast"
)

// FedInput is a fully explicit, replayable federated case.
type FedInput struct {
	Spec    FedSpec                `json:"fed"`
	StoreSeed int64                `json:"store_seed"`
	OddIDs  bool                   `json:"odd_ids,omitempty"`
	Query   string                 `json:"query"`
	OpName  string                 `json:"operation_name,omitempty"`
	Vars    map[string]interface{} `json:"variables,omitempty"`
	ListLen int                    `json:"list_len,omitempty"` // override the length of Query.allUsers
	ListOnly []string              `json:"list_only,omitempty"` // with ListLen: repeat only these user ids
	Faults  []FaultSpec            `json:"faults,omitempty"`
	Barrier int                    `json:"barrier,omitempty"` // hold service calls until this many are in flight (or 150ms)
	// CancelAtCall, when > 0: the request runs under a cancellable context that is cancelled when the n-th service
	// call (arrival order over all services) arrives; that call then takes 3 ms more to answer (the in-process
	// services, like many queryers, do not watch the context)
	CancelAtCall int `json:"cancel_at_call,omitempty"`
}

// FaultSpec makes calls number From..From+Count-1 (arrival order) of one service fail.
type FaultSpec struct {
	Service string `json:"service"`
	From    int    `json:"from"`
	Count   int    `json:"count"`
	Kind    string `json:"kind"` // transport | timeout | blank-error | empty-errors | gqlerrors | gqlerrors+data | gqlerrors+null | node-null | empty | wrong-shape
	// MatchID, when set, selects calls by their join id instead of by arrival order ("root" = calls without one)
	MatchID string `json:"match_id,omitempty"`
	// Path (kinds join-*): response keys from the call's own payload root (below "node" for a follow-up call) to
	// the place a dependent step of the plan joins at; the otherwise correct answer is malformed exactly there
	Path []string `json:"path,omitempty"`
}

// FedCase is an executed federated case with both oracles.
type FedCase struct {
	In      FedInput
	Store   Store
	Doc     *ast.QueryDocument
	Op      *ast.OperationDefinition
	Fed     *Fed
	Out     Outcome
	Want    interface{}            // Lean mono (data)
	WantGo  map[string]interface{} // Go interpreter (cross-check of the oracle)
	Classes []string
	Invalid string
	Injected *FaultLog
}

// Classify computes the decidable input regions used by KNOWN_FINDINGS (DESIGN §3 step 6).
func Classify(doc *ast.QueryDocument, op *ast.OperationDefinition, st Store, vars map[string]interface{}) []string {
	var cs []string
	add := func(s string) {
		for _, x := range cs {
			if x == s {
				return
			}
		}
		cs = append(cs, s)
	}
	if HasConditionalID(doc, op.SelectionSet, rootTypeOf(op), false) {
		add("conditional-natural-id")
	}
	if op.VariableDefinitions.ForName("id") != nil {
		add("variable-named-id")
	}
	knownID := func(f *ast.Field) bool {
		a := f.Arguments.ForName("id")
		if a == nil || a.Value == nil {
			return false
		}
		idv := ""
		switch a.Value.Kind {
		case ast.StringValue:
			idv = a.Value.Raw
		case ast.Variable:
			s, ok := vars[a.Value.Raw].(string)
			if !ok {
				return false
			}
			idv = s
		default:
			return false
		}
		for t, objs := range st {
			if t == "Query" || t == "Mutation" {
				continue
			}
			if _, ok := objs[idv]; ok {
				return true
			}
		}
		return false
	}
	// directNode: selections made on the Node returned by the gateway's own `node` field, outside any
	// concrete type condition
	var directNode func(ss ast.SelectionSet, seen map[string]bool)
	directNode = func(ss ast.SelectionSet, seen map[string]bool) {
		for _, sel := range ss {
			switch sel := sel.(type) {
			case *ast.Field:
				if sel.Name != "id" || (sel.Alias != "" && sel.Alias != "id") {
					add("gateway-node-direct-selection")
				}
			case *ast.InlineFragment:
				if sel.TypeCondition == "" || sel.TypeCondition == "Node" {
					directNode(sel.SelectionSet, seen)
				}
			case *ast.FragmentSpread:
				if d := doc.Fragments.ForName(sel.Name); d != nil && !seen[sel.Name] && d.TypeCondition == "Node" {
					seen[sel.Name] = true
					directNode(d.SelectionSet, seen)
				}
			}
		}
	}
	var walk func(ss ast.SelectionSet, top bool, seen map[string]bool)
	walk = func(ss ast.SelectionSet, top bool, seen map[string]bool) {
		for _, sel := range ss {
			switch sel := sel.(type) {
			case *ast.Field:
				if sel.Alias == "id" && sel.Name != "id" {
					add("alias-id-on-non-id-field")
				}
				if top && sel.Name == "node" {
					if !knownID(sel) {
						add("gateway-node-unknown-id")
					}
					directNode(sel.SelectionSet, map[string]bool{})
				}
				walk(sel.SelectionSet, false, seen)
			case *ast.InlineFragment:
				walk(sel.SelectionSet, top, seen)
			case *ast.FragmentSpread:
				if seen[sel.Name] {
					continue
				}
				seen[sel.Name] = true
				if d := doc.Fragments.ForName(sel.Name); d != nil {
					walk(d.SelectionSet, top, seen)
				}
			}
		}
	}
	walk(op.SelectionSet, true, map[string]bool{})
	sort.Strings(cs)
	return cs
}

func rootTypeOf(op *ast.OperationDefinition) string {
	if op.Operation == ast.Mutation {
		return "Mutation"
	}
	return "Query"
}

// RunFed executes one federated input: gateway response, Lean oracle, Go oracle.
func RunFed(c *Ctx, in FedInput, timeout time.Duration, opts ...gateway.Option) (*FedCase, error) {
	fc := &FedCase{In: in}
	fc.Store = GenStore(rand.New(rand.NewSource(in.StoreSeed)), in.OddIDs)
	if in.ListLen > 0 {
		var ids []string
		for id := range fc.Store["User"] {
			ids = append(ids, id)
		}
		sort.Strings(ids)
		if len(in.ListOnly) > 0 {
			ids = in.ListOnly
		}
		var l []interface{}
		for i := 0; i < in.ListLen; i++ {
			l = append(l, Ref{"User", ids[i%len(ids)]})
		}
		fc.Store["Query"][""]["allUsers"] = l
	}
	doc, errs := gqlparser.LoadQuery(MonoSchema(), in.Query)
	if errs != nil {
		fc.Invalid = errs[0].Rule
		if fc.Invalid == "" {
			fc.Invalid = "syntax"
		}
		return fc, nil
	}
	fc.Doc = doc
	if len(doc.Operations) == 1 {
		fc.Op = doc.Operations[0]
	} else {
		fc.Op = doc.Operations.ForName(in.OpName)
	}
	if fc.Op == nil {
		fc.Invalid = "no such operation"
		return fc, nil
	}
	if prioritisedService(in.Spec) && usesRootNode(doc, fc.Op.SelectionSet, map[string]bool{}) {
		// Query.node is offered by every service and by the gateway, and a service's node resolves only the types
		// that service declares: routed to a service by a configured priority, the field is a shared field on which
		// the services do not agree, which the conventions clause of C01 excludes
		fc.Invalid = "outside-conventions:root-node-routed-by-priority"
		return fc, nil
	}
	fc.Classes = Classify(doc, fc.Op, fc.Store, in.Vars)
	f, err := NewFed(in.Spec, fc.Store, opts...)
	if err != nil {
		return nil, fmt.Errorf("federation rejected: %w", err)
	}
	fc.Fed = f
	fc.Injected = InstallFaults(f, in.Faults, in.Barrier)
	if in.CancelAtCall > 0 {
		ctx, cancel := context.WithCancel(context.Background())
		defer cancel()
		f.Ctx = ctx
		var arrived int64
		for _, s := range f.Services {
			inner := s.Gate
			s.Gate = func(svc *Service, n int, qi *graphql.QueryInput) {
				if inner != nil {
					inner(svc, n, qi)
				}
				if atomic.AddInt64(&arrived, 1) == int64(in.CancelAtCall) {
					cancel()
					time.Sleep(3 * time.Millisecond)
				}
			}
		}
	}
	fc.WantGo, _ = Exec(MonoSchema(), fc.Store, doc, in.OpName, in.Vars)
	if c.Drv != nil {
		res, err := c.Drv.Call(MonoCase(MonoSchema(), fc.Store, doc, fc.Op, in.Vars))
		if err != nil {
			return nil, err
		}
		fc.Want = res["data"]
	} else {
		fc.Want = fc.WantGo
	}
	fc.Out = f.Run(in.Query, in.OpName, in.Vars, timeout)
	return fc, nil
}

// Status summarises the outcome against the L0 oracle.
func (fc *FedCase) Status() (ok bool, what string) {
	o := fc.Out
	switch {
	case o.Hung:
		return false, "hung"
	case o.Panicked != nil:
		return false, fmt.Sprintf("panic: %v", o.Panicked)
	case o.Err != nil && o.PlanErr:
		return false, "valid query rejected by the planner: " + firstLine(o.Err.Error())
	case o.Err != nil:
		return false, "valid query answered with errors: " + firstLine(o.Err.Error())
	case Canon(o.Data) != Canon(fc.Want):
		return false, "data differs from the monolith"
	}
	return true, ""
}

func firstLine(s string) string {
	if i := strings.Index(s, "\n"); i >= 0 {
		s = s[:i]
	}
	if len(s) > 300 {
		s = s[:300]
	}
	return s
}

func (fc *FedCase) Classifier() string {
	if len(fc.Classes) == 0 {
		return "unclassified"
	}
	return strings.Join(fc.Classes, "+")
}

// ShrinkFed minimises the query of a failing federated input (same federation, data and variables).
func ShrinkFed(c *Ctx, in FedInput, fc *FedCase) (FedInput, *FedCase) {
	best, bestFc := in, fc
	q := ShrinkQuery(in.Query, func(q string) bool {
		in2 := in
		in2.Query = q
		fc2, err := RunFed(c, in2, 5*time.Second)
		if err != nil || fc2.Invalid != "" || Canon(fc2.Want) != Canon(fc2.WantGo) {
			return false
		}
		// stay outside the regions of open known findings: shrinking must not turn one failure into another
		if InKnownRegion(fc.Classes) == "" && InKnownRegion(fc2.Classes) != "" {
			return false
		}
		if ok, _ := fc2.Status(); ok {
			return false
		}
		best, bestFc = in2, fc2
		return true
	}, 400)
	_ = q
	return best, bestFc
}

func prioritisedService(spec FedSpec) bool {
	for _, p := range spec.Priorities {
		for _, o := range spec.Order {
			if p == o {
				return true
			}
		}
	}
	return false
}

// usesRootNode: the operation selects the root field `node` (directly or through fragments on the root type)
func usesRootNode(doc *ast.QueryDocument, ss ast.SelectionSet, seen map[string]bool) bool {
	for _, sel := range ss {
		switch sel := sel.(type) {
		case *ast.Field:
			if sel.Name == "node" {
				return true
			}
		case *ast.InlineFragment:
			if usesRootNode(doc, sel.SelectionSet, seen) {
				return true
			}
		case *ast.FragmentSpread:
			if d := doc.Fragments.ForName(sel.Name); d != nil && !seen[sel.Name] {
				seen[sel.Name] = true
				if usesRootNode(doc, d.SelectionSet, seen) {
					return true
				}
			}
		}
	}
	return false
}
