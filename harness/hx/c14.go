package hx

import (
	"context"
	"encoding/json"
	"fmt"
	"math/rand"
	"sort"
	"strings"
	"time"

	"github.com/nautilus/gateway"
	"github.com/vektah/gqlparser/v2"
	"github.com/vektah/gqlparser/v2/ast"
)

// ---------------------------------------------------------------------------------------------
// C14 — introspection tells the truth about the merged schema
//   L0: Gateway.Execute on generated introspection selections vs Lean `introSpec` of the merged schema
//   captured through WithPlanner; schema rebuilt from the full introspection result vs the merged schema
// ---------------------------------------------------------------------------------------------

type c14 struct{}

func serTRef(t *ast.Type) interface{} {
	if t == nil {
		return nil
	}
	if t.NonNull {
		c := *t
		c.NonNull = false
		return map[string]interface{}{"kind": "NON_NULL", "ofType": serTRef(&c)}
	}
	if t.Elem != nil {
		return map[string]interface{}{"kind": "LIST", "ofType": serTRef(t.Elem)}
	}
	return map[string]interface{}{"name": t.NamedType}
}

func optDesc(s string) interface{} {
	if s == "" {
		return nil
	}
	return s
}

func deprecation(ds ast.DirectiveList) (bool, interface{}) {
	d := ds.ForName("deprecated")
	if d == nil {
		return false, nil
	}
	if a := d.Arguments.ForName("reason"); a != nil {
		return true, a.Value.Raw
	}
	return true, "No longer supported" // the default value of @deprecated(reason:)
}

func serIValues(as ast.ArgumentDefinitionList) []interface{} {
	out := []interface{}{}
	for _, a := range as {
		iv := map[string]interface{}{"name": a.Name, "description": optDesc(a.Description), "type": serTRef(a.Type)}
		if a.DefaultValue != nil {
			iv["defaultValue"] = a.DefaultValue.String()
		}
		out = append(out, iv)
	}
	return out
}

// SerISchema renders the schema the gateway validates queries against, for the Lean `introSpec`.
func SerISchema(s *ast.Schema) map[string]interface{} {
	types := []interface{}{}
	var names []string
	for n := range s.Types {
		names = append(names, n)
	}
	sort.Strings(names)
	for _, n := range names {
		d := s.Types[n]
		t := map[string]interface{}{"kind": string(d.Kind), "name": n, "description": optDesc(d.Description)}
		if sb := d.Directives.ForName("specifiedBy"); sb != nil {
			if a := sb.Arguments.ForName("url"); a != nil {
				t["specifiedByURL"] = a.Value.Raw
			}
		}
		fields := []interface{}{}
		inputs := []interface{}{}
		for _, f := range d.Fields {
			if d.Kind == ast.InputObject {
				iv := map[string]interface{}{"name": f.Name, "description": optDesc(f.Description), "type": serTRef(f.Type)}
				if f.DefaultValue != nil {
					iv["defaultValue"] = f.DefaultValue.String()
				}
				inputs = append(inputs, iv)
				continue
			}
			dep, reason := deprecation(f.Directives)
			fields = append(fields, map[string]interface{}{"name": f.Name, "description": optDesc(f.Description), "args": serIValues(f.Arguments), "type": serTRef(f.Type), "deprecated": dep, "reason": reason})
		}
		t["fields"], t["inputFields"] = fields, inputs
		t["interfaces"] = append([]string{}, d.Interfaces...)
		var poss []string
		for _, p := range s.GetPossibleTypes(d) {
			poss = append(poss, p.Name)
		}
		if d.Kind != ast.Interface && d.Kind != ast.Union {
			poss = nil
		}
		if poss == nil {
			poss = []string{}
		}
		t["possible"] = poss
		evs := []interface{}{}
		for _, v := range d.EnumValues {
			dep, reason := deprecation(v.Directives)
			evs = append(evs, map[string]interface{}{"name": v.Name, "description": optDesc(v.Description), "deprecated": dep, "reason": reason})
		}
		t["enumValues"] = evs
		types = append(types, t)
	}
	dirs := []interface{}{}
	var dnames []string
	for n := range s.Directives {
		dnames = append(dnames, n)
	}
	sort.Strings(dnames)
	for _, n := range dnames {
		d := s.Directives[n]
		var locs []string
		for _, l := range d.Locations {
			locs = append(locs, string(l))
		}
		dirs = append(dirs, map[string]interface{}{"name": n, "description": optDesc(d.Description), "locations": locs, "args": serIValues(d.Arguments), "repeatable": d.IsRepeatable})
	}
	out := map[string]interface{}{"types": types, "directives": dirs, "query": "Query", "description": optDesc(s.Description)}
	if s.Query != nil {
		out["query"] = s.Query.Name
	}
	if s.Mutation != nil {
		out["mutation"] = s.Mutation.Name
	}
	if s.Subscription != nil {
		out["subscription"] = s.Subscription.Name
	}
	return out
}

// sortLists canonicalises list order (the property is not about order): lists of objects/strings are sorted
// by their canonical rendering.
func sortLists(v interface{}) interface{} {
	switch x := v.(type) {
	case map[string]interface{}:
		out := map[string]interface{}{}
		for k, e := range x {
			out[k] = sortLists(e)
		}
		return out
	case []interface{}:
		out := make([]interface{}, len(x))
		for i, e := range x {
			out[i] = sortLists(e)
		}
		sort.SliceStable(out, func(a, b int) bool { return Canon(out[a]) < Canon(out[b]) })
		return out
	}
	return v
}

// selection generator over the introspection types
type igen struct {
	r     *rand.Rand
	vars  map[string]interface{}
	// defaults of declared variables the request leaves out (the oracle is given them as values)
	defaults map[string]interface{}
	vdefs []string
	frags []string
	nf    int
}

var introFields = map[string][]string{
	"__Schema":     {"description", "types", "queryType", "mutationType", "subscriptionType", "directives"},
	"__Type":       {"kind", "name", "description", "fields", "interfaces", "possibleTypes", "enumValues", "inputFields", "ofType", "specifiedByURL"},
	"__Field":      {"name", "description", "args", "type", "isDeprecated", "deprecationReason"},
	"__InputValue": {"name", "description", "type", "defaultValue"},
	"__EnumValue":  {"name", "description", "isDeprecated", "deprecationReason"},
	"__Directive":  {"name", "description", "locations", "args", "isRepeatable"},
}
var introFieldType = map[string]string{
	"__Schema.types": "__Type", "__Schema.queryType": "__Type", "__Schema.mutationType": "__Type", "__Schema.subscriptionType": "__Type", "__Schema.directives": "__Directive",
	"__Type.fields": "__Field", "__Type.interfaces": "__Type", "__Type.possibleTypes": "__Type", "__Type.enumValues": "__EnumValue", "__Type.inputFields": "__InputValue", "__Type.ofType": "__Type",
	"__Field.args": "__InputValue", "__Field.type": "__Type", "__InputValue.type": "__Type", "__Directive.args": "__InputValue",
}

func (g *igen) sel(typ string, depth int) string {
	fs := introFields[typ]
	var parts []string
	used := map[string]bool{}
	n := 1 + g.r.Intn(4)
	for i := 0; i < n; i++ {
		if depth > 0 && g.r.Intn(8) == 0 {
			inner := g.sel(typ, depth-1)
			switch g.r.Intn(3) {
			case 0:
				parts = append(parts, "... on "+typ+" { "+inner+" }")
			case 1:
				name := fmt.Sprintf("IF%d", g.nf)
				g.nf++
				g.frags = append(g.frags, "fragment "+name+" on "+typ+" { "+inner+" }")
				parts = append(parts, "..."+name)
			default:
				parts = append(parts, "... { "+inner+" }")
			}
			continue
		}
		f := fs[g.r.Intn(len(fs))]
		key := f
		if g.r.Intn(4) == 0 {
			key = []string{"a", "b", "types", "name", "kind", "x" + f}[g.r.Intn(6)]
		}
		if used[key] {
			continue
		}
		s := f
		if key != f {
			s = key + ": " + f
		}
		if (f == "fields" || f == "enumValues") && key == f && depth > 0 && !used["s"+f] && g.r.Intn(3) == 0 {
			// two sibling selections of the same field with different includeDeprecated flags
			used["s"+f] = true
			sub := introFieldType[typ+"."+f]
			flags := []string{"(includeDeprecated: true)", "", "(includeDeprecated: false)"}
			g.r.Shuffle(3, func(a, b int) { flags[a], flags[b] = flags[b], flags[a] })
			parts = append(parts, "s"+f+": "+f+flags[0]+" { "+g.sel(sub, 0)+" }")
			s += flags[1]
		} else if f == "fields" || f == "enumValues" {
			switch g.r.Intn(4) {
			case 0:
				s += "(includeDeprecated: true)"
			case 1:
				s += "(includeDeprecated: false)"
			case 2:
				v := fmt.Sprintf("d%d", len(g.vdefs))
				if g.r.Intn(3) == 0 {
					// a variable with a default value that the request does not supply
					def := g.r.Intn(2) == 0
					g.vdefs = append(g.vdefs, fmt.Sprintf("$%s: Boolean = %v", v, def))
					g.defaults[v] = def
				} else {
					g.vdefs = append(g.vdefs, "$"+v+": Boolean!")
					g.vars[v] = g.r.Intn(2) == 0
				}
				s += "(includeDeprecated: $" + v + ")"
			}
		}
		if g.r.Intn(10) == 0 {
			s += []string{" @skip(if: false)", " @skip(if: true)", " @include(if: true)", " @include(if: false)"}[g.r.Intn(4)]
		}
		if sub, ok := introFieldType[typ+"."+f]; ok {
			if depth <= 0 {
				continue
			}
			s += " { " + g.sel(sub, depth-1) + " }"
		}
		used[key] = true
		parts = append(parts, s)
	}
	if len(parts) == 0 || g.r.Intn(6) == 0 {
		parts = append(parts, "__typename")
	}
	return strings.Join(parts, " ")
}

var c14Corpus = []struct{ ID, Query string; Vars map[string]interface{} }{
	{"D28-alias-on-schema-field", `{ __schema { t: types { name } } }`, nil},
	{"D29-type-name-variable", `query($n: String!) { __type(name: $n) { name kind } }`, map[string]interface{}{"n": "Item"}},
	{"D29-includeDeprecated-variable", `query($d: Boolean!) { __type(name: "Item") { fields(includeDeprecated: $d) { name isDeprecated deprecationReason } } }`, map[string]interface{}{"d": true}},
	{"includeDeprecated-true-then-default-siblings", `{ __type(name: "Item") { a: fields(includeDeprecated: true) { name } b: fields { name } c: fields(includeDeprecated: false) { name } } }`, nil},
	{"includeDeprecated-across-fields-and-enumValues", `{ __type(name: "State") { fields(includeDeprecated: true) { name } enumValues { name } } s: __type(name: "State") { a: enumValues(includeDeprecated: true) { name } enumValues { name isDeprecated } } }`, nil},
	{"D30-typename-on-introspection-types", `{ __schema { __typename queryType { __typename fields { __typename args { __typename } } } directives { __typename } } }`, nil},
	{"D54-schema-description", `{ __schema { description } }`, nil},
	{"D54-specifiedByURL", `{ __type(name: "Stamp") { name specifiedByURL } }`, nil},
	{"D54-isRepeatable", `{ __schema { directives { name isRepeatable } } }`, nil},
	{"KF-D21-interface-possible-types", `{ __type(name: "Node") { possibleTypes { name } } }`, nil},
	{"deprecated-default-reason", `{ __type(name: "State") { enumValues(includeDeprecated: true) { name isDeprecated deprecationReason } } }`, nil},
	{"full-type-refs", `{ __type(name: "Item") { fields(includeDeprecated: true) { name type { kind name ofType { kind name ofType { kind name ofType { kind name } } } } args { name defaultValue type { kind name ofType { name kind } } } } } }`, nil},
	{"variable-default-type-name", `query ($n: String = "Item") { __type(name: $n) { name kind } }`, nil},
	{"variable-default-include-deprecated", `query ($d: Boolean = true) { __type(name: "State") { enumValues(includeDeprecated: $d) { name } } a: __type(name: "Owner") { fields(includeDeprecated: $d) { name } } }`, nil},
	{"unknown-type", `{ __type(name: "Nope") { name } }`, nil},
	{"skip-on-schema", `{ __schema @skip(if: true) { queryType { name } } a: __typename }`, nil},
}

func (c14) Cases(tier string) int {
	n := map[string]int{"quick": 400, "search": 1500, "thorough": 5000}[tier]
	if n == 0 {
		n = 400
	}
	return len(c14Corpus) + n
}

func (c14) Rule() string {
	return "merged schemas built from 2-4 services of the merge generator (every kind, deprecated fields and enum values with and without reason, descriptions, default values, repeatable and custom directives, a scalar with @specifiedBy) x generated introspection selections over __Schema/__Type/__Field/__InputValue/__EnumValue/__Directive of depth up to 5 with aliases (also aliases equal to other field names), inline/named/untyped fragments, @skip/@include, includeDeprecated literal and variable, __type(name:) literal and variable (variables supplied, or declared with a default and left out), __typename everywhere; the gateway's answer through GetPlans+Execute must equal the Lean introSpec of the merged schema captured through WithPlanner (list order canonicalised); every 10th case rebuilds a schema from the gateway's full introspection result and compares its canonical dump with the merged schema; non-trivial = the selection reaches depth 3; distinct = distinct (schema, query)"
}

const fullIntrospection = `{ __schema { queryType { name } mutationType { name } subscriptionType { name }
  types { kind name description specifiedByURL
    fields(includeDeprecated: true) { name description isDeprecated deprecationReason args { name description defaultValue type { ...T } } type { ...T } }
    inputFields { name description defaultValue type { ...T } } interfaces { name } possibleTypes { name }
    enumValues(includeDeprecated: true) { name description isDeprecated deprecationReason } }
  directives { name description locations isRepeatable args { name description defaultValue type { ...T } } } } }
fragment T on __Type { kind name ofType { kind name ofType { kind name ofType { kind name ofType { kind name ofType { kind name } } } } } }`

func (c14) Run(c *Ctx, i int) CaseResult {
	// L2: the gateway's own resolver (Gateway.Query: directives, fragments, argument variables, dispatch) against Gq.query
	gqStats := map[string]int{}
	for k := 0; k < 4; k++ {
		gf, feat := GwQueryCorr(c, c.Rand(i*10+k+92000000))
		if len(gf) > 0 {
			return CaseResult{ID: fmt.Sprintf("gen:%d", i), Nontrivial: true, Fails: gf}
		}
		if feat != "" {
			gqStats["gateway_query_"+feat]++
		}
	}
	r := c.Rand(i + 91000000)
	tbl := mergeTable()
	// a scalar with @specifiedBy and a deprecated field without reason
	for k := range tbl {
		if tbl[k].Name == "Stamp" {
			tbl[k].Dirs = `@specifiedBy(url: "https://example.com/stamp")`
		}
		if tbl[k].Name == "Owner" {
			tbl[k].Fields = append(tbl[k].Fields, mField{Name: "legacy", Type: "Int", Dirs: "@deprecated"})
		}
	}
	nsvc := 2 + r.Intn(3)
	spec := FedSpec{SDLs: map[string]string{}}
	for s := 0; s < nsvc; s++ {
		defs := genService(r, tbl, s)
		url := fmt.Sprintf("S%d", s)
		if s == 0 {
			defs = tbl // the first service has everything so that corpus queries find their types
		}
		spec.SDLs[url] = renderService(defs, s)
		spec.Order = append(spec.Order, url)
	}
	var query string
	vars := map[string]interface{}{}
	defaults := map[string]interface{}{}
	id := ""
	if i < len(c14Corpus) {
		query, id = c14Corpus[i].Query, "corpus:"+c14Corpus[i].ID
		if c14Corpus[i].Vars != nil {
			vars = c14Corpus[i].Vars
		}
	} else {
		g := &igen{r: r, vars: vars, defaults: defaults}
		var parts []string
		if r.Intn(3) != 0 {
			parts = append(parts, "__schema { "+g.sel("__Schema", 2+r.Intn(3))+" }")
		}
		if r.Intn(2) == 0 || len(parts) == 0 {
			tn := []string{"Item", "Owner", "State", "Opt", "Thing", "Node", "Named", "Stamp", "Query", "Nope", "__Type", "String"}[r.Intn(12)]
			alias := []string{"", "t: ", "__schema: "}[r.Intn(3)]
			if len(parts) > 0 && alias == "__schema: " {
				alias = "t: "
			}
			if r.Intn(6) == 0 {
				g.vdefs = append(g.vdefs, fmt.Sprintf("$tn: String = %q", tn))
				defaults["tn"] = tn
				parts = append(parts, alias+"__type(name: $tn) { "+g.sel("__Type", 2+r.Intn(3))+" }")
			} else if r.Intn(3) == 0 {
				g.vdefs = append(g.vdefs, "$tn: String!")
				vars["tn"] = tn
				parts = append(parts, alias+"__type(name: $tn) { "+g.sel("__Type", 2+r.Intn(3))+" }")
			} else {
				parts = append(parts, fmt.Sprintf("%s__type(name: %q) { %s }", alias, tn, g.sel("__Type", 2+r.Intn(3))))
			}
		}
		if r.Intn(5) == 0 {
			parts = append(parts, "__typename")
		}
		body := strings.Join(parts, " ")
		var rootFrags []string
		switch r.Intn(5) {
		case 0:
			// the meta fields reached through fragments on the root type, nested: a named fragment that holds one
			// part itself and the rest in a second fragment
			if len(parts) >= 2 {
				body = "...RootOuter"
				rootFrags = append(rootFrags, "fragment RootOuter on Query { "+parts[0]+" ...RootInner }", "fragment RootInner on Query { "+strings.Join(parts[1:], " ")+" }")
			} else {
				body = "...RootOuter"
				rootFrags = append(rootFrags, "fragment RootOuter on Query { ...RootInner }", "fragment RootInner on Query { "+parts[0]+" }")
			}
		case 1:
			if len(parts) >= 2 {
				body = "... on Query { " + parts[0] + " ... { " + strings.Join(parts[1:], " ") + " } }"
			} else {
				body = "... { ... on Query { " + parts[0] + " } }"
			}
		case 2:
			if len(parts) >= 2 {
				body = parts[0] + " ...RootOuter"
				rootFrags = append(rootFrags, "fragment RootOuter on Query { ... on Query { "+strings.Join(parts[1:], " ")+" } }")
			}
		}
		query = "query"
		if len(g.vdefs) > 0 {
			query += "(" + strings.Join(g.vdefs, ", ") + ")"
		}
		query += " { " + body + " } " + strings.Join(append(g.frags, rootFrags...), " ")
		id = fmt.Sprintf("gen:%d", i)
	}
	res := CaseResult{ID: id, Key: fmt.Sprint(spec.SDLs, query, vars)}
	f, err := NewFed(spec, Store{})
	if err != nil {
		res.Skipped = "schemas-incompatible"
		return res
	}
	f.Plan(`{ __typename }`, 5*time.Second)
	if f.Merged == nil {
		res.Skipped = "no-merged-schema"
		return res
	}
	doc, errs := gqlparser.LoadQuery(f.Merged, query)
	if errs != nil {
		res.Skipped = "invalid-query:" + errs[0].Rule
		return res
	}
	in := map[string]interface{}{"services": spec.SDLs, "query": query, "variables": vars}
	bad := func(channel, classifier, what string, exp, obs interface{}) {
		res.Fails = append(res.Fails, Failure{Channel: channel, Classifier: classifier, What: what, Input: in, Expected: exp, Observed: obs})
	}
	classifier := "unclassified"
	if strings.Contains(query, "possibleTypes") {
		classifier = "introspection-possible-types"
		if i >= len(c14Corpus) && knownRegions[classifier] {
			res.Skipped = "known-region:" + classifier
			return res
		}
	}
	rc := &gateway.RequestContext{Context: context.Background(), Query: query, Variables: vars}
	plans, perr := f.GW.GetPlans(rc)
	if perr != nil {
		bad("L0.intro", classifier, "a valid introspection query was rejected: "+firstLine(perr.Error()), nil, nil)
		return res
	}
	data, eerr := f.GW.Execute(rc, plans)
	if eerr != nil {
		bad("L0.intro", classifier, "a valid introspection query was answered with errors: "+firstLine(eerr.Error()), nil, nil)
		return res
	}
	// L1: the plan of the introspection query against the planner model
	if what, model, impl, perr2 := PlanCorrRaw(c, doc, f.Locations, nil, spec.Order, plans); perr2 == nil && what != "" {
		bad("L1.plan", classifier, what, model, map[string]interface{}{"steps": impl, "plan": PlanText(plans)})
	}
	// the oracle evaluates with the effective values: what the request supplies, else the declared default
	eff := map[string]interface{}{}
	for _, vd := range doc.Operations[0].VariableDefinitions {
		if vd.DefaultValue != nil {
			if dv, err := vd.DefaultValue.Value(nil); err == nil {
				eff[vd.Variable] = dv
			}
		}
	}
	for k, v := range vars {
		eff[k] = v
	}
	req := MonoCase(f.Merged, Store{}, doc, doc.Operations[0], eff)
	req["op"] = "intro"
	req["schema"] = SerISchema(f.Merged)
	ans, err := c.Drv.Call(req)
	if err != nil {
		res.Fails = append(res.Fails, Failure{Channel: "harness", Classifier: "harness-error", What: err.Error()})
		return res
	}
	var got interface{}
	b, _ := json.Marshal(data)
	json.Unmarshal(b, &got)
	want := sortLists(normalise(ans["data"]))
	gotS := sortLists(normalise(got))
	if Canon(want) != Canon(gotS) {
		bad("L0.intro", classifier, "the answer differs from the specification's: "+diffHint(Canon(want), Canon(gotS)), want, gotS)
	}
	res.Nontrivial = strings.Count(query, "{") >= 4
	res.Features = []string{fmt.Sprintf("services-%d", nsvc)}
	// round trip
	if i%10 == 0 && len(res.Fails) == 0 {
		rc2 := &gateway.RequestContext{Context: context.Background(), Query: fullIntrospection}
		if plans2, err := f.GW.GetPlans(rc2); err == nil {
			full, _ := f.GW.Execute(rc2, plans2)
			if d := rebuildDiff(full, f.Merged); d != "" {
				cl := "unclassified"
				if strings.Contains(d, "possible") {
					cl = "introspection-possible-types"
				}
				if !(cl == "introspection-possible-types" && knownRegions[cl]) {
					bad("L0.intro-roundtrip", cl, "a schema rebuilt from the full introspection result differs from the merged schema: "+d, nil, nil)
				}
			}
			res.Features = append(res.Features, "roundtrip")
		}
	}
	if len(res.Fails) == 0 && i%2 == 0 {
		// introspection arguments through variables, answered from one reused plan for changing values
		ts := reuseTemplatesFor("introspection-variable-name", "introspection-include-deprecated", "optional-variable-on-gateway-field")
		res.Fails = append(res.Fails, ReuseCheck(c, c.Rand(i+83000000), ts[(i/2)%len(ts)], "L0.intro-reuse")...)
	}
	if i%53 == 0 || i < 3 {
		res.Sample = map[string]interface{}{"query": query, "variables": vars, "services": nsvc}
	}
	if res.Counters == nil {
		res.Counters = map[string]int{}
	}
	for k, v := range gqStats {
		res.Counters[k] += v
	}
	return res
}

// rebuildDiff compares what the full introspection result says with the merged schema: names, kinds, fields with
// types/args/defaults, enum values, input fields, interfaces, possible types, directives.
func rebuildDiff(full map[string]interface{}, s *ast.Schema) string {
	b, _ := json.Marshal(full)
	var v map[string]interface{}
	json.Unmarshal(b, &v)
	sch, _ := v["__schema"].(map[string]interface{})
	if sch == nil {
		return "no __schema in the result"
	}
	seen := map[string]bool{}
	tstr := func(x interface{}) string { return trefString(x) }
	types, _ := sch["types"].([]interface{})
	for _, t := range types {
		tm := t.(map[string]interface{})
		name, _ := tm["name"].(string)
		seen[name] = true
		d := s.Types[name]
		if d == nil {
			return "introspection lists type " + name + " which the merged schema does not have"
		}
		if tm["kind"] != string(d.Kind) {
			return fmt.Sprintf("kind of %s: %v vs %s", name, tm["kind"], d.Kind)
		}
		want := map[string]string{}
		for _, f := range d.Fields {
			if strings.HasPrefix(f.Name, "__") {
				continue
			}
			want[f.Name] = f.Type.String() + "(" + argsStr(f.Arguments, true) + ")"
		}
		got := map[string]string{}
		key := "fields"
		if d.Kind == ast.InputObject {
			key = "inputFields"
		}
		fl, _ := tm[key].([]interface{})
		for _, f := range fl {
			fm := f.(map[string]interface{})
			var as []string
			if al, ok := fm["args"].([]interface{}); ok {
				for _, a := range al {
					am := a.(map[string]interface{})
					dv := "<none>"
					if s, ok := am["defaultValue"].(string); ok {
						dv = "txt:" + s
					}
					as = append(as, fmt.Sprintf("%v:%s=%s", am["name"], tstr(am["type"]), dv))
				}
			}
			sort.Strings(as)
			got[fm["name"].(string)] = tstr(fm["type"]) + "(" + strings.Join(as, ";") + ")"
		}
		if d.Kind == ast.Object || d.Kind == ast.Interface || d.Kind == ast.InputObject {
			for k, w := range want {
				g, ok := got[k]
				if !ok {
					return fmt.Sprintf("%s.%s is missing from the introspection result", name, k)
				}
				// defaults are compared as printed text
				if stripDefaults(g) != stripDefaults(w) {
					return fmt.Sprintf("%s.%s: introspection says %s, the merged schema %s", name, k, g, w)
				}
			}
			for k := range got {
				if _, ok := want[k]; !ok {
					return fmt.Sprintf("%s.%s is in the introspection result only", name, k)
				}
			}
		}
		if d.Kind == ast.Interface || d.Kind == ast.Union {
			var w, g []string
			for _, p := range s.GetPossibleTypes(d) {
				if p.Kind == ast.Object {
					w = append(w, p.Name)
				}
			}
			pl, _ := tm["possibleTypes"].([]interface{})
			for _, p := range pl {
				g = append(g, p.(map[string]interface{})["name"].(string))
			}
			sort.Strings(w)
			sort.Strings(g)
			if fmt.Sprint(w) != fmt.Sprint(g) {
				return fmt.Sprintf("possible types of %s: introspection %v, object types implementing it %v", name, g, w)
			}
		}
	}
	for n := range s.Types {
		if !seen[n] {
			return "type " + n + " of the merged schema is missing from the introspection result"
		}
	}
	return ""
}

func stripDefaults(s string) string {
	// "x:Int=txt:5" vs "x:Int=3:5": keep names and types only
	var out []string
	for _, part := range strings.Split(s, ";") {
		if i := strings.Index(part, "="); i >= 0 {
			part = part[:i]
		}
		out = append(out, part)
	}
	return strings.Join(out, ";")
}

func trefString(x interface{}) string {
	m, ok := x.(map[string]interface{})
	if !ok || m == nil {
		return "?"
	}
	switch m["kind"] {
	case "NON_NULL":
		return trefString(m["ofType"]) + "!"
	case "LIST":
		return "[" + trefString(m["ofType"]) + "]"
	}
	if n, ok := m["name"].(string); ok {
		return n
	}
	return "?"
}

func init() { Runners["C14"] = c14{} }
