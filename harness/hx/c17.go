package hx

import (
	"fmt"
	"strings"
	"time"
)

// ---------------------------------------------------------------------------------------------
// C17 — exactly the named operation is executed, unaffected by its neighbours
// ---------------------------------------------------------------------------------------------

type c17 struct{}

var c17Corpus = []corpusCase{
	{"D10-two-operations", withVars(fixedIn(`query A { me { firstName lastName } } query B { allUsers { lastName } }`), "B", nil), "scrub paths used to come from the first operation"},
	{"D10-shared-path-leak", withVars(fixedIn(`query A { me { id firstName lastName } } query B { me { firstName lastName } }`), "B", nil), "id must not leak into B because A asks for it"},
	{"D10-shared-path-vanish", withVars(fixedIn(`query A { me { firstName lastName } } query B { me { id firstName lastName } }`), "B", nil), "id must not vanish from B because A does not ask for it"},
	{"neighbour-with-a-required-variable", withVars(fixedIn(`query One($id: ID!) { user(id: $id) { firstName } } query Two { me { firstName lastName } }`), "Two", nil), "naming Two needs none of One's variables"},
	{"missing-name", withVars(fixedIn(`query A { me { firstName } } query B { me { lastName } }`), "", nil), "error, no service contacted"},
	{"unknown-name", withVars(fixedIn(`query A { me { firstName } } query B { me { lastName } }`), "Z", nil), "error, no service contacted"},
	{"single-operation-unknown-name", withVars(fixedIn(`query A { me { firstName lastName } }`), "Z", nil), "error, no service contacted"},
	{"single-anonymous-with-name", withVars(fixedIn(`{ me { firstName } }`), "Z", nil), "error, no service contacted"},
	{"mutation-before-query", withVars(fixedIn(`mutation M { bump(id: "u1") { firstName } } query Q { me { firstName lastName } }`), "Q", nil), "a query planned after a mutation of the same document"},
	{"mutation-and-query", withVars(fixedIn(`query Q { me { firstName } } mutation M { bump(id: "u1") { firstName lastName } }`), "M", nil), ""},
}

func (c17) Cases(tier string) int {
	switch tier {
	case "thorough":
		return len(c17Corpus) + 6000
	case "search":
		return len(c17Corpus) + 2000
	}
	return len(c17Corpus) + 600
}

func (c17) Rule() string {
	return "documents of 1-3 operations (queries, sometimes a mutation) generated over the same field paths with and without `id`, sharing named fragments; for every operation name of the document plus the empty and an unknown name: Execute(document, name) must equal Lean mono of that operation and equal Execute(document reduced to that operation and its fragments); for a missing name (when several operations) or an unknown name: an error and zero service requests; non-trivial = at least 2 operations; distinct = distinct (federation, document, name)"
}

// genDoc builds a document of k operations over related selections.
func genDoc(c *Ctx, i int) (string, []string, map[string]interface{}) {
	r := c.Rand(i + 5000000)
	k := 1 + r.Intn(3)
	var ops, names, frags []string
	vars := map[string]interface{}{}
	for j := 0; j < k; j++ {
		g := &QGen{R: r, Schema: MonoSchema(), F: QFeat{Inline: true, Named: r.Intn(2) == 0, Directives: false, AliasShadow: r.Intn(3) == 0, Typename: true, IDHeavy: true, Depth: 2}}
		name := fmt.Sprintf("Op%d", j)
		if j == 1 && r.Intn(4) == 0 {
			name = "op0" // names are case-sensitive: Op0 and op0 are two operations
		}
		q := g.Query(name)
		// rename fragments per operation to keep definitions unique
		for f := 0; f < 40; f++ {
			q = strings.ReplaceAll(q, fmt.Sprintf("F%d ", f), fmt.Sprintf("G%dx%d ", j, f))
			q = strings.ReplaceAll(q, fmt.Sprintf("...F%d", f), fmt.Sprintf("...G%dx%d", j, f))
		}
		idx := strings.Index(q, " fragment ")
		if idx >= 0 {
			frags = append(frags, q[idx:])
			q = q[:idx]
		}
		ops = append(ops, q)
		names = append(names, name)
		for kk, v := range g.Vars {
			vars[kk] = v
		}
	}
	if r.Intn(3) == 0 {
		// a mutation somewhere among the queries (also in front of them)
		m := []string{`mutation Mut { bump(id: "u1") { firstName lastName } }`, `mutation Mut { touch(id: "p1") { url likes } }`, `mutation Mut { bump(id: "u2") { id nick } }`}[r.Intn(3)]
		at := r.Intn(len(ops) + 1)
		ops = append(ops[:at], append([]string{m}, ops[at:]...)...)
		names = append(names[:at], append([]string{"Mut"}, names[at:]...)...)
	}
	return strings.Join(ops, " ") + strings.Join(frags, " "), names, vars
}

func (c17) Run(c *Ctx, i int) CaseResult {
	var in FedInput
	var names []string
	id := ""
	corpus := i < len(c17Corpus)
	if corpus {
		in, id = c17Corpus[i].In, "corpus:"+c17Corpus[i].ID
		names = []string{in.OpName}
	} else {
		r := c.Rand(i)
		in, _ = GenFedInput(c, i, "C17")
		in.OddIDs = false
		var doc string
		doc, names, in.Vars = genDoc(c, i)
		in.Query = doc
		// no name, a name no operation has, and names that differ from an operation's only in the case of their letters
		names = append(names, "", "Zzz", strings.ToUpper(names[0]), strings.ToLower(names[len(names)-1]))
		_ = r
		id = fmt.Sprintf("gen:%d", i)
	}
	res := CaseResult{ID: id, Key: fmt.Sprint(in.Spec.SDLs, in.Query)}
	nops := 0
	for _, name := range names {
		in.OpName = name
		fc, err := RunFed(c, in, 5*time.Second)
		if err != nil {
			res.Fails = append(res.Fails, Failure{Channel: "harness", Classifier: "harness-error", What: err.Error(), Input: in})
			return res
		}
		if fc.Doc == nil {
			res.Skipped = "invalid-query:" + fc.Invalid
			return res
		}
		nops = len(fc.Doc.Operations)
		selectable := fc.Op != nil && (name != "" || nops == 1) && (fc.Op.Name == name || (name == "" && nops == 1))
		if !selectable {
			// missing or unknown name: error, no service contacted
			f := fc.Fed
			if f == nil {
				var err error
				f, err = NewFed(in.Spec, fc.Store)
				if err != nil {
					continue
				}
			}
			f.ResetLogs()
			out := f.Run(in.Query, name, in.Vars, 5*time.Second)
			if out.Err == nil || f.TotalCalls() != 0 {
				res.Fails = append(res.Fails, Failure{Channel: "L0.operation-selection", Classifier: "unclassified",
					What:  fmt.Sprintf("operationName %q names no operation of the document (%d operations): expected an error and no service request, got error=%q and %d requests", name, nops, firstLine(ErrString(out.Err)), f.TotalCalls()),
					Input: in, Observed: map[string]interface{}{"data": out.Data}})
			}
			continue
		}
		if !corpus {
			if reg := InKnownRegion(fc.Classes); reg != "" {
				continue
			}
		}
		if Canon(fc.Want) != Canon(fc.WantGo) {
			res.Fails = append(res.Fails, Failure{Channel: "L0.oracle-crosscheck", Classifier: "oracle-disagreement", What: "Lean mono and the harness interpreter disagree", Input: in})
			continue
		}
		cl := InKnownRegion(fc.Classes)
		if cl == "" {
			cl = fc.Classifier()
		}
		if ok, what := fc.Status(); !ok {
			res.Fails = append(res.Fails, Failure{Channel: "L0.mono", Classifier: cl, What: fmt.Sprintf("operation %q of a %d-operation document: %s", name, nops, what), Input: in, Expected: fc.Want,
				Observed: map[string]interface{}{"data": fc.Out.Data, "error": ErrString(fc.Out.Err), "plan": PlanText(fc.Out.Plans)}})
			continue
		}
		// the same through the HTTP handler: the neighbours (their variables, their names) do not matter there either
		if nops > 1 {
			if hf := HTTPSameFail(in, fc); hf != nil {
				hf.What = fmt.Sprintf("operation %q of a %d-operation document: %s", name, nops, hf.What)
				res.Fails = append(res.Fails, *hf)
				continue
			}
		}
		// the same operation alone
		if nops > 1 {
			in2 := in
			in2.Query = reduceDoc(fc, name)
			fc2, err := RunFed(c, in2, 5*time.Second)
			if err == nil && fc2.Invalid == "" && Canon(fc2.Out.Data) != Canon(fc.Out.Data) {
				res.Fails = append(res.Fails, Failure{Channel: "L0.neighbours", Classifier: cl, What: fmt.Sprintf("operation %q answers differently alone and among its neighbours", name), Input: in,
					Expected: fc2.Out.Data, Observed: fc.Out.Data})
			}
		}
	}
	if len(res.Fails) == 0 && i%2 == 0 {
		// the named operation is the one executed also when the document's plans are reused for other names
		ts := reuseTemplatesFor("multi-operation", "multi-operation-with-mutation")
		res.Fails = append(res.Fails, ReuseCheck(c, c.Rand(i+84000000), ts[(i/2)%len(ts)], "L0.op-reuse")...)
	}
	res.Nontrivial = nops >= 2
	res.Counters = map[string]int{"operations": nops, "names_tried": len(names)}
	res.Features = []string{fmt.Sprintf("operations-%d", nops)}
	if i%101 == 0 || corpus {
		res.Sample = map[string]interface{}{"document": in.Query, "names": names}
	}
	return res
}

// reduceDoc prints the named operation with the fragments it (transitively) uses.
func reduceDoc(fc *FedCase, name string) string {
	d2, err := parseOnly(fc.In.Query)
	if err != nil {
		return fc.In.Query
	}
	var keep = d2.Operations[:0]
	for _, op := range d2.Operations {
		if op.Name == name {
			keep = append(keep, op)
		}
	}
	d2.Operations = keep
	dropUnusedFragments(d2)
	return printDoc(d2)
}

func init() { Runners["C17"] = c17{} }
