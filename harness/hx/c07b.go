package hx

import (
	"github.com/nautilus/gateway"
	"github.com/vektah/gqlparser/v2/ast"
)

// flatKeysSS lists the top-level response keys a step selects (through its own fragment definitions).
func flatKeysSS(s *gateway.QueryPlanStep) []string {
	var out []string
	var walk func(ss ast.SelectionSet, seen map[string]bool)
	walk = func(ss ast.SelectionSet, seen map[string]bool) {
		for _, sel := range ss {
			switch sel := sel.(type) {
			case *ast.Field:
				k := sel.Alias
				if k == "" {
					k = sel.Name
				}
				out = append(out, k)
			case *ast.InlineFragment:
				walk(sel.SelectionSet, seen)
			case *ast.FragmentSpread:
				if !seen[sel.Name] {
					seen[sel.Name] = true
					if d := s.FragmentDefinitions.ForName(sel.Name); d != nil {
						walk(d.SelectionSet, seen)
					}
				}
			}
		}
	}
	walk(s.SelectionSet, map[string]bool{})
	return out
}

// findField finds the field with the given response key in a client selection set (through fragments).
func findField(fc *FedCase, ss ast.SelectionSet, key string, seen map[string]bool) *ast.Field {
	for _, sel := range ss {
		switch sel := sel.(type) {
		case *ast.Field:
			k := sel.Alias
			if k == "" {
				k = sel.Name
			}
			if k == key {
				return sel
			}
		case *ast.InlineFragment:
			if f := findField(fc, sel.SelectionSet, key, seen); f != nil {
				return f
			}
		case *ast.FragmentSpread:
			if !seen[sel.Name] {
				seen[sel.Name] = true
				if d := fc.Doc.Fragments.ForName(sel.Name); d != nil {
					if f := findField(fc, d.SelectionSet, key, seen); f != nil {
						return f
					}
				}
			}
		}
	}
	return nil
}

func init() { Runners["C07"] = c07{} }
