package hx

import (
	"fmt"
	"runtime"

	"github.com/nautilus/gateway"
	"sort"
	"strconv"
	"strings"
	"sync"
)

// L1.trace: an execution of the real ParallelExecutor, observed through its own log sites, replayed on the Lean
// executor machine (lean/GwModel/Exec/Machine.lean, the configuration the theorems of Props/C05-C07 are about).
//
// Observed per goroutine (goroutine id and creator id from runtime.Stack): "Executing step" (a task starts),
// "Pushing Result" (its stepWg.Add is done, the send to resultCh follows), "Spawn" (the send has completed, a
// dependent step is about to be started), and for the single collector "Inserting result into" (a result has been
// received) and "Done." (merged without error). The events are put into one sequence under a lock; that sequence
// is consistent with the order of the synchronisation operations the log calls bracket.
//
// Translation into machine actions: `add` at the Pushing log; `pub` as late as the observations allow (before the
// task's first Spawn log and before its own insertion, in the order of the insertions because the channel is
// FIFO) — the latest placement keeps the modelled queue as short as possible, so a capacity violation reported
// by the machine is a real one; `spawn` at the first Spawn log; `recv` + `done` at each insertion; `ret` when
// Execute has returned. The machine must accept the whole sequence and end returned with the observed order.

type traceEv struct {
	Kind    string // exec | push | spawn | insert | done
	G       int64  // goroutine
	Creator int64  // exec only: the goroutine that started this one
	IP      string
}

// TraceRec collects the events of one execution.
type TraceRec struct {
	mu  sync.Mutex
	Evs []traceEv
}

func goroutineIDs() (self, creator int64) {
	buf := make([]byte, 8192)
	n := runtime.Stack(buf, false)
	s := string(buf[:n])
	// "goroutine 35 [running]:"
	if strings.HasPrefix(s, "goroutine ") {
		rest := s[len("goroutine "):]
		if sp := strings.IndexByte(rest, ' '); sp > 0 {
			self, _ = strconv.ParseInt(rest[:sp], 10, 64)
		}
	}
	if i := strings.LastIndex(s, " in goroutine "); i >= 0 {
		rest := s[i+len(" in goroutine "):]
		end := 0
		for end < len(rest) && rest[end] >= '0' && rest[end] <= '9' {
			end++
		}
		creator, _ = strconv.ParseInt(rest[:end], 10, 64)
	}
	return
}

func (t *TraceRec) add(kind string, ip []string, withCreator bool) {
	if t == nil {
		return
	}
	g, c := goroutineIDs()
	if !withCreator {
		c = 0
	}
	t.mu.Lock()
	t.Evs = append(t.Evs, traceEv{Kind: kind, G: g, Creator: c, IP: strings.Join(ip, "/")})
	t.mu.Unlock()
}

// Observe is called by the loggers of the harness with the arguments of every Debug/Info call of the executor.
func (t *TraceRec) Observe(args []interface{}) {
	if t == nil || len(args) == 0 {
		return
	}
	s, ok := args[0].(string)
	if !ok {
		return
	}
	ipAt := func(i int) []string {
		if len(args) > i {
			if ip, ok := args[i].([]string); ok {
				return ip
			}
		}
		return nil
	}
	switch {
	case strings.HasPrefix(s, "Executing step to be inserted in"):
		t.add("exec", ipAt(3), true)
	case strings.HasPrefix(s, "Pushing Result"):
		t.add("push", ipAt(1), false)
	case strings.HasPrefix(s, "Spawn"):
		t.add("spawn", ipAt(1), false)
	case strings.HasPrefix(s, "Inserting result into"):
		t.add("insert", ipAt(1), false)
	case strings.HasPrefix(s, "Done."):
		t.add("done", nil, false)
	}
}

type traceTask struct {
	g          int64
	parent     int // -1: root
	ip         string
	start      int
	push       int // -1: not observed
	spawnFirst int // first Spawn log; large when none
	ins        int // index of the insertion event; -1 when not inserted
	insRank    int
	failed     bool
	kids       int
}

const never = 1 << 40

var (
	traceCapOnce sync.Once
	traceCapVal  = 10
)

// traceCapacity asks the driver for the channel capacity the machine is configured with (extracted from the source)
func traceCapacity(c *Ctx) int {
	traceCapOnce.Do(func() {
		if ans, err := c.Drv.Call(map[string]interface{}{"op": "trace", "tasks": []interface{}{}, "acts": []interface{}{}}); err == nil {
			if f := numOf(ans["cap"]); f >= 1 {
				traceCapVal = int(f)
			}
		}
	})
	return traceCapVal
}

// traceModel is the parsed form of the recorded events
type traceModel struct {
	evs     []traceEv
	ts      []*traceTask
	byG     map[int64]int
	inserts []int // event indices of the insertions, in order
}

func parseTrace(evs []traceEv) (*traceModel, string) {
	m := &traceModel{evs: evs, byG: map[int64]int{}}
	for i, e := range evs {
		if e.Kind == "exec" {
			p := -1
			if pi, ok := m.byG[e.Creator]; ok {
				p = pi
			}
			m.byG[e.G] = len(m.ts)
			m.ts = append(m.ts, &traceTask{g: e.G, parent: p, ip: e.IP, start: i, push: -1, spawnFirst: never, ins: -1})
		}
	}
	for i, e := range evs {
		ti, ok := m.byG[e.G]
		switch e.Kind {
		case "push":
			if !ok {
				return nil, fmt.Sprintf("event %d: Pushing Result from a goroutine that never logged Executing step", i)
			}
			m.ts[ti].push = i
		case "spawn":
			if !ok {
				return nil, fmt.Sprintf("event %d: Spawn from a goroutine that never logged Executing step", i)
			}
			if m.ts[ti].spawnFirst == never {
				m.ts[ti].spawnFirst = i
			}
		case "insert":
			m.inserts = append(m.inserts, i)
		}
	}
	for _, t := range m.ts {
		if t.parent >= 0 {
			m.ts[t.parent].kids++
		}
	}
	return m, ""
}

// assignments enumerates the ways of attributing the insertions (known by insertion point only) to tasks such that
// sends in the order of the insertions are possible at all: a result can only be in the channel after its task
// logged Pushing Result (R) and must be there before the task's first Spawn log (D); sends ordered like the
// insertions exist iff R of every earlier one is before D of every later one. yield returns false to stop.
func (m *traceModel) assignments(budget int, capacity int, yield func(assign []int) bool) (exhausted bool, problem string) {
	n := len(m.inserts)
	assign := make([]int, n)
	used := make([]bool, len(m.ts))
	steps := 0
	stopped := false
	firstProblem := ""
	var rec func(k int, maxR int) bool
	rec = func(k int, maxR int) bool {
		if stopped {
			return true
		}
		steps++
		if steps > budget {
			return false
		}
		if k == n {
			if !yield(append([]int{}, assign...)) {
				stopped = true
			}
			return true
		}
		at := m.inserts[k]
		ip := m.evs[at].IP
		// candidates in order of their Pushing log (keeps the bound on later sends low)
		var cands []int
		for ti, t := range m.ts {
			if !used[ti] && t.ip == ip && t.push >= 0 && t.push < at {
				cands = append(cands, ti)
			}
		}
		sort.Slice(cands, func(a, b int) bool { return m.ts[cands[a]].push < m.ts[cands[b]].push })
		if len(cands) == 0 && firstProblem == "" {
			firstProblem = fmt.Sprintf("event %d: a result is inserted at %q but no task with that insertion point had reached Pushing Result", at, ip)
		}
		for _, ti := range cands {
			t := m.ts[ti]
			if maxR >= t.spawnFirst {
				continue
			}
			// capacity: when the k-th result goes into the channel (before this task's first Spawn log) at most
			// `capacity` results are in it, so the (k-capacity)-th has been taken out — which the collector does only
			// after it has logged the insertion before that one
			if k > capacity && m.inserts[k-capacity-1] >= t.spawnFirst {
				continue
			}
			nm := maxR
			if t.push > nm {
				nm = t.push
			}
			// every task not yet attributed is sent later: its first Spawn log must lie after nm
			ok := true
			for ui, u := range m.ts {
				if ui != ti && !used[ui] && u.spawnFirst <= nm {
					ok = false
					break
				}
			}
			if !ok {
				continue
			}
			used[ti] = true
			assign[k] = ti
			done := rec(k+1, nm)
			used[ti] = false
			if !done {
				return false
			}
			if stopped {
				return true
			}
		}
		return true
	}
	complete := rec(0, -1)
	return complete, firstProblem
}

// actions builds the machine's action list for one attribution of the insertions.
func (m *traceModel) actions(assign []int, capacity int) (tasks []map[string]interface{}, acts []interface{}, order []int, problem string) {
	rankOf := map[int]int{}
	for r, ti := range assign {
		rankOf[ti] = r
	}
	failed := make([]bool, len(m.ts))
	for r, ti := range assign {
		failed[ti] = true
		for j := m.inserts[r] + 1; j < len(m.evs); j++ {
			if m.evs[j].Kind == "done" {
				failed[ti] = false
				break
			}
			if m.evs[j].Kind == "insert" {
				break
			}
		}
	}
	for ti, t := range m.ts {
		p := interface{}(nil)
		if t.parent >= 0 {
			p = t.parent
		}
		tasks = append(tasks, map[string]interface{}{"parent": p, "failed": failed[ti]})
	}
	eff := func(t int) { acts = append(acts, map[string]interface{}{"eff": t}) }
	published, received, doneUpTo := 0, 0, 0 // ranks < published are in or through the channel; < received taken out; < doneUpTo finished
	receive := func(now int) bool {
		// the collector can take rank `received` out once it is done with the previous one, which it is only after
		// having logged that insertion
		if received >= published || received > doneUpTo {
			return false
		}
		if received > 0 && now <= m.inserts[received-1] {
			return false
		}
		acts = append(acts, "recv")
		order = append(order, assign[received])
		received++
		return true
	}
	publishThrough := func(r int, now int) string {
		for published <= r {
			ti := assign[published]
			u := m.ts[ti]
			if u.push > now {
				return fmt.Sprintf("the result of task %d (insertion point %q) would have to be in the channel before event %d, but it reaches Pushing Result only at event %d: results were not received in the order they were sent, or a dependent step overtook its parent", ti, u.ip, now, u.push)
			}
			if published-received >= capacity && !receive(now) {
				return fmt.Sprintf("before event %d the channel would have to hold more than %d results (task %d cannot publish)", now, capacity, ti)
			}
			eff(ti) // pub
			if u.kids == 0 {
				eff(ti) // the empty spawn loop of a leaf
			}
			published++
		}
		return ""
	}
	for i, e := range m.evs {
		switch e.Kind {
		case "push":
			eff(m.byG[e.G]) // add
		case "spawn":
			ti := m.byG[e.G]
			t := m.ts[ti]
			if t.spawnFirst == i {
				r, ok := rankOf[ti]
				if !ok {
					return tasks, acts, nil, fmt.Sprintf("task %d (insertion point %q) starts dependent steps but its own result is never inserted", ti, t.ip)
				}
				if p := publishThrough(r, i); p != "" {
					return tasks, acts, nil, p
				}
				eff(ti) // spawn
			}
		case "insert":
			r := sort.SearchInts(m.inserts, i)
			if p := publishThrough(r, i); p != "" {
				return tasks, acts, nil, p
			}
			for received <= r {
				if !receive(i) {
					return tasks, acts, nil, fmt.Sprintf("the collector cannot have received the result inserted at event %d by then", i)
				}
				if received <= r {
					return tasks, acts, nil, fmt.Sprintf("two results would have to be held by the collector at event %d", i)
				}
			}
			acts = append(acts, "done")
			doneUpTo = r + 1
		}
	}
	acts = append(acts, "ret")
	return tasks, acts, order, ""
}

// TraceCorr replays a recorded, completed execution on the Lean machine. what == "" when the machine accepts it
// under some attribution of the insertions to tasks.
func TraceCorr(c *Ctx, rec *TraceRec, errCount int) (what string, detail map[string]interface{}, err error) {
	if c.Drv == nil || rec == nil {
		return "", nil, nil
	}
	rec.mu.Lock()
	evs := append([]traceEv{}, rec.Evs...)
	rec.mu.Unlock()
	var evText []string
	for i, e := range evs {
		evText = append(evText, fmt.Sprintf("%d g%d %s %s", i, e.G, e.Kind, e.IP))
	}
	detail = map[string]interface{}{"events": evText}
	m, problem := parseTrace(evs)
	if problem != "" {
		return "the observed execution cannot be a run of the executor machine: " + problem, detail, nil
	}
	if len(m.ts) == 0 {
		return "", nil, nil
	}
	if len(m.ts) > 400 {
		// the machine's step function rebuilds its tables on every action (it is written for proofs, not for speed):
		// replaying thousands of tasks takes minutes. Larger executions are not replayed.
		return "", map[string]interface{}{"inconclusive": true, "too_large": len(m.ts)}, nil
	}
	capacity := traceCapacity(c)
	tried, firstWhat := 0, ""
	var firstDetail map[string]interface{}
	accepted := false
	var callErr error
	complete, prob := m.assignments(200000, capacity, func(assign []int) bool {
		tried++
		tasks, acts, order, problem := m.actions(assign, capacity)
		w := ""
		d := map[string]interface{}{"tasks": tasks, "actions": acts}
		if problem != "" {
			w = "the observed execution cannot be a run of the executor machine: " + problem
		} else {
			ans, err := c.Drv.Call(map[string]interface{}{"op": "trace", "tasks": tasks, "acts": acts})
			if err != nil {
				callErr = err
				return false
			}
			d["machine"] = ans
			switch {
			case ans["accepted"] != true:
				w = fmt.Sprintf("the executor machine rejects the observed execution at action %v (%v)", ans["at"], ans["why"])
			case ans["returned"] != true:
				w = "the executor machine has not returned at the end of the observed execution"
			case Canon(ans["order"]) != Canon(order):
				w = "the machine's order of insertions differs from the observed one"
			default:
				nerrs := 0
				if l, ok := ans["errs"].([]interface{}); ok {
					nerrs = len(l)
				}
				if errCount >= 0 && (nerrs == 0) != (errCount == 0) {
					w = fmt.Sprintf("the machine ends with %d failed tasks recorded, Execute reported %d errors", nerrs, errCount)
				}
			}
		}
		if w == "" {
			accepted = true
			return false
		}
		if firstWhat == "" {
			firstWhat, firstDetail = w, d
		}
		return tried < 64
	})
	if callErr != nil {
		return "", nil, callErr
	}
	if accepted {
		return "", detail, nil
	}
	for k, v := range firstDetail {
		detail[k] = v
	}
	detail["attributions_tried"] = tried
	if !complete || tried >= 64 {
		// not every attribution of the insertions to same-point siblings has been tried (search budget): the
		// execution is neither explained nor refuted; it is counted, not reported
		return "", map[string]interface{}{"inconclusive": true}, nil
	}
	if tried == 0 {
		if prob == "" {
			prob = "no attribution of the insertions to tasks lets the results be sent in the order they were received (a result was received before it can have been sent, or a dependent step was started before its parent's result was in the channel)"
		}
		return "the observed execution cannot be a run of the executor machine: " + prob, detail, nil
	}
	return firstWhat, detail, nil
}

// TraceLogger only records (no gating): for executions that are not schedule-controlled
type TraceLogger struct{ Rec *TraceRec }

func (l TraceLogger) Debug(args ...interface{})                             { l.Rec.Observe(args) }
func (l TraceLogger) Info(args ...interface{})                              { l.Rec.Observe(args) }
func (l TraceLogger) Warn(args ...interface{})                              {}
func (l TraceLogger) WithFields(fields gateway.LoggerFields) gateway.Logger { return l }
func (l TraceLogger) QueryPlanStep(step *gateway.QueryPlanStep)             {}

// TraceFails wraps TraceCorr as the L1.trace channel of a runner
func TraceFails(c *Ctx, rec *TraceRec, out Outcome, in interface{}) (fails []Failure, status string) {
	if out.Hung || out.PlanHung || out.PlanErr || out.Panicked != nil || rec == nil {
		return nil, ""
	}
	// errors are accounted for by the L0.errors channels: a response middleware can add errors no task failed with
	n := -1
	what, detail, err := TraceCorr(c, rec, n)
	if err != nil {
		return []Failure{{Channel: "harness", Classifier: "harness-error", What: err.Error(), Input: in}}, ""
	}
	if what == "" {
		switch {
		case detail == nil:
			return nil, ""
		case detail["inconclusive"] != nil:
			return nil, "trace_inconclusive"
		}
		return nil, "trace_accepted_by_machine"
	}
	return []Failure{{Channel: "L1.trace", Classifier: "unclassified", What: what, Input: in, Observed: detail}}, ""
}
