package hx

import (
	"fmt"
	"math/rand"
	"strings"

	"github.com/nautilus/gateway"
	"github.com/vektah/gqlparser/v2"
	"github.com/vektah/gqlparser/v2/ast"
)

// ---------------------------------------------------------------------------------------------
// L2 correspondence of Fp.findPts (lean/GwModel/FindPts.lean) with executorFindInsertionPoints: a target
// path through a small schema, a query selecting along it (aliases, inline and named fragments, a response key
// selected twice with split sub-selections), a reply that mostly conforms to the types (lists with null
// entries, objects with and without id) and sometimes does not (wrong kinds, null for non-null), and the
// realised insertion paths or an error on both sides. The per-point facts the model needs (is there a field
// with this response key at this level, is its type a list, is it non-null) are computed here from the parsed
// query, independently of the library's findSelection.
// ---------------------------------------------------------------------------------------------

const findSDL = `
type Query { users: [User!]!  maybeUsers: [User]  me: User  viewer: User!  tags: [String] }
type User { id: ID!  name: String  best: User  friends: [User]  photos: [Photo!]!  boss: User! }
type Photo { id: ID!  url: String  owner: User  tagged: [User] }
`

var findSchema = gqlparser.MustLoadSchema(&ast.Source{Input: findSDL})

type findCase struct {
	Query  string                 `json:"query"`
	Target []string               `json:"target"`
	Start  []string               `json:"start"`
	Result map[string]interface{} `json:"result"`
}

type pathStep struct {
	field *ast.FieldDefinition
	key   string // response key used in the query
}

func genFindCase(r *rand.Rand) (fc findCase, infos []map[string]interface{}) {
	// a path of composite-typed fields
	cur := findSchema.Types["Query"]
	var steps []pathStep
	for depth := 1 + r.Intn(4); depth > 0; depth-- {
		var cands []*ast.FieldDefinition
		for _, f := range cur.Fields {
			t := findSchema.Types[f.Type.Name()]
			if t != nil && t.Kind == ast.Object && !strings.HasPrefix(f.Name, "__") {
				cands = append(cands, f)
			}
		}
		f := cands[r.Intn(len(cands))]
		key := f.Name
		if r.Intn(4) == 0 {
			key = []string{"x", f.Name + "2", "n" + f.Name}[r.Intn(3)]
		}
		steps = append(steps, pathStep{f, key})
		cur = findSchema.Types[f.Type.Name()]
	}
	// the query: nested along the path; fragments and a split duplicate now and then
	var frags []string
	var build func(i int, typ string) string
	build = func(i int, typ string) string {
		if i == len(steps) {
			leaf := map[string]string{"User": "name", "Photo": "url"}[typ]
			if r.Intn(5) == 0 {
				return leaf
			}
			return "id " + leaf
		}
		s := steps[i]
		inner := build(i+1, s.field.Type.Name())
		sel := s.field.Name + " { " + inner + " }"
		if s.key != s.field.Name {
			sel = s.key + ": " + sel
		}
		switch r.Intn(7) {
		case 0:
			sel = "... on " + typ + " { " + sel + " }"
		case 1:
			sel = "... { " + sel + " }"
		case 2:
			name := fmt.Sprintf("F%d", len(frags))
			frags = append(frags, "fragment "+name+" on "+typ+" { "+sel+" }")
			sel = "..." + name
		case 3:
			// the same response key twice, the path continuing in the second occurrence only
			first := s.field.Name + " { __typename }"
			if s.key != s.field.Name {
				first = s.key + ": " + first
			}
			sel = first + " " + sel
		}
		if r.Intn(3) == 0 && typ != "Query" {
			sel = "id " + sel
		}
		return sel
	}
	// a non-empty start: the search begins below the first k points, with the selection and reply of that level
	k := 0
	if len(steps) > 1 && r.Intn(3) == 0 {
		k = 1 + r.Intn(len(steps)-1)
	}
	startType := "Query"
	for i := 0; i < k; i++ {
		startType = steps[i].field.Type.Name()
		fc.Start = append(fc.Start, fmt.Sprintf("%s:%d#s%d", steps[i].key, r.Intn(3), i))
	}
	if fc.Start == nil {
		fc.Start = []string{}
	}
	body := build(k, startType)
	if startType == "Query" {
		fc.Query = "{ " + body + " } " + strings.Join(frags, " ")
	} else {
		// wrap so that the document validates; the selection handed over is the one under the wrapper
		wrapper := map[string]string{"User": "me", "Photo": "me { photos"}[startType]
		closeW := map[string]string{"User": "", "Photo": " }"}[startType]
		fc.Query = "{ " + wrapper + " { " + body + " }" + closeW + " } " + strings.Join(frags, " ")
	}
	for _, s := range steps {
		fc.Target = append(fc.Target, s.key)
	}
	// the reply
	malform := r.Intn(4) == 0
	var gen func(i int) interface{}
	idc := 0
	gen = func(i int) interface{} {
		obj := map[string]interface{}{}
		if r.Intn(8) != 0 {
			idc++
			if r.Intn(6) == 0 {
				obj["id"] = idc
			} else {
				obj["id"] = fmt.Sprintf("o%d", idc)
			}
		}
		obj["name"] = "n"
		if i < len(steps) {
			s := steps[i]
			var v interface{}
			if s.field.Type.Elem != nil {
				l := []interface{}{}
				for n := r.Intn(4); n > 0; n-- {
					if r.Intn(6) == 0 {
						l = append(l, nil)
					} else {
						l = append(l, gen(i+1))
					}
				}
				v = l
			} else if r.Intn(7) == 0 {
				v = nil
			} else {
				v = gen(i + 1)
			}
			if malform && r.Intn(3) == 0 {
				switch r.Intn(5) {
				case 0:
					v = "scalar"
				case 1:
					v = []interface{}{gen(i + 1), 3}
				case 2:
					v = gen(i + 1)
				case 3:
					v = []interface{}{gen(i + 1)}
				case 4:
					v = nil
				}
			}
			if r.Intn(12) != 0 {
				obj[s.key] = v
			}
		}
		return obj
	}
	fc.Result = gen(k).(map[string]interface{})
	return fc, nil
}

// flattenFields: the fields of a selection set with fragments expanded (type conditions and directives ignored),
// fields sharing a response key merged (their sub-selections concatenated), in order of first appearance
func flattenFields(doc *ast.QueryDocument, ss ast.SelectionSet, seen map[string]bool) []*ast.Field {
	var out []*ast.Field
	add := func(f *ast.Field) {
		key := f.Alias
		if key == "" {
			key = f.Name
		}
		for _, o := range out {
			ok := o.Alias
			if ok == "" {
				ok = o.Name
			}
			if ok == key {
				o.SelectionSet = append(o.SelectionSet, f.SelectionSet...)
				return
			}
		}
		c := *f
		c.SelectionSet = append(ast.SelectionSet{}, f.SelectionSet...)
		out = append(out, &c)
	}
	for _, sel := range ss {
		switch sel := sel.(type) {
		case *ast.Field:
			add(sel)
		case *ast.InlineFragment:
			for _, f := range flattenFields(doc, sel.SelectionSet, seen) {
				add(f)
			}
		case *ast.FragmentSpread:
			if d := doc.Fragments.ForName(sel.Name); d != nil {
				for _, f := range flattenFields(doc, d.SelectionSet, seen) {
					add(f)
				}
			}
		}
	}
	return out
}

// FindCorr runs one generated case through executorFindInsertionPoints and through Fp.findPts.
func FindCorr(c *Ctx, r *rand.Rand) (fails []Failure, feats []string) {
	fc, _ := genFindCase(r)
	doc, errs := gqlparser.LoadQuery(findSchema, fc.Query)
	if errs != nil {
		return []Failure{{Channel: "harness", Classifier: "harness-error", What: "generated query does not validate: " + errs.Error(), Input: fc}}, nil
	}
	// the selection set handed to the search: the operation's, or the one below the wrapper for a non-empty start
	ss := doc.Operations[0].SelectionSet
	if len(fc.Start) > 0 {
		// wrapper depth: "me {" (User) or "me { photos {" (Photo)
		depth := 1
		if strings.HasPrefix(fc.Query, "{ me { photos {") {
			depth = 2
		}
		for d := 0; d < depth; d++ {
			ss = ss[0].(*ast.Field).SelectionSet
		}
	}
	// per-point facts for the model
	var infos []interface{}
	level := ss
	dead := false
	for _, key := range fc.Target[len(fc.Start):] {
		info := map[string]interface{}{"key": key, "found": false, "isList": false, "nonNull": false}
		if !dead {
			var found *ast.Field
			for _, f := range flattenFields(doc, level, map[string]bool{}) {
				k := f.Alias
				if k == "" {
					k = f.Name
				}
				if k == key {
					found = f
					break
				}
			}
			if found == nil {
				dead = true
			} else {
				info["found"] = true
				info["isList"] = found.Definition.Type.Elem != nil
				info["nonNull"] = found.Definition.Type.NonNull
				level = found.SelectionSet
			}
		}
		infos = append(infos, info)
	}
	var got [][]string
	var gerr error
	var panicked interface{}
	func() {
		defer func() { panicked = recover() }()
		got, gerr = gateway.VerifFindInsertionPoints(fc.Target, ss, deepCopy(fc.Result).(map[string]interface{}), fc.Start, doc.Fragments)
	}()
	if panicked != nil {
		return []Failure{{Channel: "L2.findpoints", Classifier: "unclassified", What: fmt.Sprintf("executorFindInsertionPoints panicked: %v", panicked), Input: fc}}, nil
	}
	if c.Drv == nil {
		return nil, nil
	}
	ans, err := c.Drv.Call(map[string]interface{}{"op": "findpts", "infos": infos, "chunk": fc.Result, "pre": fc.Start})
	if err != nil {
		return []Failure{{Channel: "harness", Classifier: "harness-error", What: err.Error(), Input: fc}}, nil
	}
	obs := map[string]interface{}{"paths": got, "error": ErrString(gerr)}
	if _, merr := ans["error"]; merr {
		feats = append(feats, "findpoints-error")
		if gerr == nil {
			return []Failure{{Channel: "L2.findpoints", Classifier: "unclassified", What: "the model reports an error, executorFindInsertionPoints none", Input: fc, Expected: ans, Observed: obs}}, feats
		}
		return nil, feats
	}
	if gerr != nil {
		return []Failure{{Channel: "L2.findpoints", Classifier: "unclassified", What: "executorFindInsertionPoints reports an error, the model none", Input: fc, Expected: ans, Observed: obs}}, feats
	}
	var want []string
	for _, p := range ans["paths"].([]interface{}) {
		var parts []string
		for _, x := range p.([]interface{}) {
			parts = append(parts, x.(string))
		}
		want = append(want, strings.Join(parts, "/"))
	}
	var have []string
	for _, p := range got {
		have = append(have, strings.Join(p, "/"))
	}
	feats = append(feats, fmt.Sprintf("findpoints-paths-%d", min3(len(have))))
	if fmt.Sprint(want) != fmt.Sprint(have) {
		return []Failure{{Channel: "L2.findpoints", Classifier: "unclassified", What: "executorFindInsertionPoints and the model disagree on the realised insertion paths", Input: fc, Expected: want, Observed: have}}, feats
	}
	return nil, feats
}

func min3(n int) int {
	if n > 3 {
		return 3
	}
	return n
}
