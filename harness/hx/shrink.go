package hx

import (
	"strings"
	"time"

	"github.com/vektah/gqlparser/v2/ast"
	"github.com/vektah/gqlparser/v2/formatter"
	"github.com/vektah/gqlparser/v2/parser"
)

// ShrinkQuery delta-minimises a query text: it repeatedly removes one selection, one directive or one
// unused fragment while `fails` still holds, and returns the smallest text found.
func ShrinkQuery(query string, fails0 func(q string) bool, budget int) string {
	// wall-clock bound: a shrink must finish well inside the parent's per-case watchdog
	deadline := time.Now().Add(40 * time.Second)
	fails := func(q string) bool {
		if time.Now().After(deadline) {
			return false
		}
		return fails0(q)
	}
	best := query
	for round := 0; round < 40 && budget > 0; round++ {
		doc, err := parser.ParseQuery(&ast.Source{Input: best})
		if err != nil {
			return best
		}
		improved := false
		n := countEdits(doc)
		for k := 0; k < n && budget > 0; k++ {
			d2, _ := parser.ParseQuery(&ast.Source{Input: best})
			if !applyEdit(d2, k) {
				continue
			}
			dropUnusedFragments(d2)
			cand := printDoc(d2)
			if cand == "" || len(cand) >= len(best) {
				continue
			}
			budget--
			if fails(cand) {
				best = cand
				improved = true
				break
			}
		}
		if !improved {
			break
		}
	}
	return best
}

func printDoc(d *ast.QueryDocument) string {
	var sb strings.Builder
	formatter.NewFormatter(&sb, formatter.WithIndent(" ")).FormatQueryDocument(d)
	return strings.Join(strings.Fields(sb.String()), " ")
}

type editSite struct {
	set  *ast.SelectionSet
	idx  int
	dirs *ast.DirectiveList
}

func sites(d *ast.QueryDocument) []editSite {
	var out []editSite
	var walk func(ss *ast.SelectionSet)
	walk = func(ss *ast.SelectionSet) {
		for i := range *ss {
			out = append(out, editSite{set: ss, idx: i})
			switch s := (*ss)[i].(type) {
			case *ast.Field:
				if len(s.Directives) > 0 {
					out = append(out, editSite{dirs: &s.Directives})
				}
				walk(&s.SelectionSet)
			case *ast.InlineFragment:
				if len(s.Directives) > 0 {
					out = append(out, editSite{dirs: &s.Directives})
				}
				walk(&s.SelectionSet)
			case *ast.FragmentSpread:
				if len(s.Directives) > 0 {
					out = append(out, editSite{dirs: &s.Directives})
				}
			}
		}
	}
	for _, op := range d.Operations {
		walk(&op.SelectionSet)
	}
	for _, f := range d.Fragments {
		walk(&f.SelectionSet)
	}
	return out
}

func countEdits(d *ast.QueryDocument) int { return len(sites(d)) }

func applyEdit(d *ast.QueryDocument, k int) bool {
	ss := sites(d)
	if k >= len(ss) {
		return false
	}
	s := ss[k]
	if s.dirs != nil {
		*s.dirs = nil
		return true
	}
	if len(*s.set) <= 1 {
		// a selection set may not become empty: replace a composite's only child by nothing is invalid, so
		// try hoisting instead (inline fragment -> its content)
		if inl, ok := (*s.set)[s.idx].(*ast.InlineFragment); ok && len(inl.SelectionSet) > 0 {
			*s.set = inl.SelectionSet
			return true
		}
		return false
	}
	*s.set = append(append(ast.SelectionSet{}, (*s.set)[:s.idx]...), (*s.set)[s.idx+1:]...)
	return true
}

func dropUnusedFragments(d *ast.QueryDocument) {
	for changed := true; changed; {
		changed = false
		used := map[string]bool{}
		var walk func(ss ast.SelectionSet)
		walk = func(ss ast.SelectionSet) {
			for _, s := range ss {
				switch s := s.(type) {
				case *ast.Field:
					walk(s.SelectionSet)
				case *ast.InlineFragment:
					walk(s.SelectionSet)
				case *ast.FragmentSpread:
					used[s.Name] = true
				}
			}
		}
		for _, op := range d.Operations {
			walk(op.SelectionSet)
		}
		for _, f := range d.Fragments {
			walk(f.SelectionSet)
		}
		var keep ast.FragmentDefinitionList
		for _, f := range d.Fragments {
			if used[f.Name] {
				keep = append(keep, f)
			} else {
				changed = true
			}
		}
		d.Fragments = keep
	}
	// drop unused variable definitions
	for _, op := range d.Operations {
		txt := printSels(op.SelectionSet, d)
		var keep ast.VariableDefinitionList
		for _, v := range op.VariableDefinitions {
			if strings.Contains(txt, "$"+v.Variable) {
				keep = append(keep, v)
			}
		}
		op.VariableDefinitions = keep
	}
}

func printSels(ss ast.SelectionSet, d *ast.QueryDocument) string {
	var sb strings.Builder
	f := formatter.NewFormatter(&sb)
	f.FormatQueryDocument(&ast.QueryDocument{Operations: ast.OperationList{&ast.OperationDefinition{Operation: ast.Query, SelectionSet: ss}}, Fragments: d.Fragments})
	return sb.String()
}
