package hx

import (
	"context"
	"fmt"
	"math/rand"
	"sort"
	"strings"

	"github.com/nautilus/gateway"
	"github.com/nautilus/graphql"
	"github.com/vektah/gqlparser/v2"
	"github.com/vektah/gqlparser/v2/ast"
)

// L2.gateway-query: the gateway's own resolver, (*Gateway).Query, against Gq.query (lean/GwModel/GwQuery.lean).
//
// Generated documents over the fields the gateway answers itself — node, two query fields it is given, __typename,
// __type, __schema — with @skip/@include singly and in pairs (literal and variable conditions), arguments given as
// literals and through variables that are present, missing, null or of another kind, the fields standing plainly,
// inside inline fragments and inside named fragments (which may carry directives and be spread twice), repeated
// response keys. The real Query and the model must give the same answer per response key, or both fail.

var gqFed *Fed

func gqGateway() *Fed {
	if gqFed == nil {
		mk := func(name string) *gateway.QueryField {
			return &gateway.QueryField{Name: name, Type: ast.NamedType("User", nil),
				Arguments: ast.ArgumentDefinitionList{{Name: "token", Type: ast.NamedType("String", nil)}, {Name: "flag", Type: ast.NamedType("Boolean", nil)}},
				Resolver: func(ctx context.Context, args map[string]interface{}) (string, error) {
					var keys []string
					for k := range args {
						keys = append(keys, k)
					}
					// the order of the arguments as written is not available to a resolver: the model is given them
					// in a fixed order too (token, flag)
					sort.Slice(keys, func(a, b int) bool { return keys[a] > keys[b] })
					out := name
					for _, k := range keys {
						if args[k] == "fail" {
							return "", fmt.Errorf("resolver of %s failed", name)
						}
						switch v := args[k].(type) {
						case nil:
							out += ":null"
						default:
							out += ":" + fmt.Sprint(v)
						}
					}
					return out, nil
				}}
		}
		f, err := NewFed(FixedFed(), GenStore(rand.New(rand.NewSource(5)), false), gateway.WithQueryFields(mk("viewer"), mk("current")))
		if err != nil {
			panic(err)
		}
		f.Plan(`{ __typename }`, 5e9)
		gqFed = f
	}
	return gqFed
}

type gqCase struct {
	Query string                 `json:"query"`
	Vars  map[string]interface{} `json:"variables"`
}

func genGqCase(r *rand.Rand) gqCase {
	vars := map[string]interface{}{}
	var defs []string
	newVar := func(typ string, values []interface{}) string {
		name := fmt.Sprintf("v%d", len(defs))
		defs = append(defs, fmt.Sprintf("$%s: %s", name, typ))
		switch r.Intn(5) {
		case 0: // missing
		case 1:
			vars[name] = nil
		default:
			vars[name] = values[r.Intn(len(values))]
		}
		return "$" + name
	}
	boolArg := func() string {
		if r.Intn(2) == 0 {
			return fmt.Sprint(r.Intn(2) == 0)
		}
		return newVar("Boolean!", []interface{}{true, false})
	}
	dirs := func() string {
		out := ""
		switch r.Intn(6) {
		case 0:
			out = " @skip(if: " + boolArg() + ")"
		case 1:
			out = " @include(if: " + boolArg() + ")"
		case 2:
			out = " @skip(if: " + boolArg() + ") @include(if: " + boolArg() + ")"
		case 3:
			out = " @include(if: " + boolArg() + ") @skip(if: " + boolArg() + ")"
		}
		return out
	}
	strArg := func(lits []string, values []interface{}, typ string) string {
		if r.Intn(2) == 0 {
			return fmt.Sprintf("%q", lits[r.Intn(len(lits))])
		}
		return newVar(typ, values)
	}
	nkey := 0
	key := func() string {
		nkey++
		return fmt.Sprintf("k%d: ", nkey)
	}
	var emitted []string // field texts without directives, for repeating a response key with the very same field
	var frags []string
	var sels func(depth int) string
	var fieldText func() string
	field := func() string {
		if len(emitted) > 0 && r.Intn(5) == 0 {
			// the same response key and field once more (selections of one key are merged), under conditions of its own
			e := emitted[r.Intn(len(emitted))]
			return strings.Replace(e, "<DIRS>", dirs(), 1)
		}
		t := fieldText()
		emitted = append(emitted, t)
		return strings.Replace(t, "<DIRS>", dirs(), 1)
	}
	fieldText = func() string {
		switch r.Intn(7) {
		case 0, 1:
			return key() + "node(id: " + strArg([]string{"u1", "u2", "zzz"}, []interface{}{"u1", "u3", 5, true}, "ID!") + ")<DIRS> { id }"
		case 2:
			args := ""
			if r.Intn(2) == 0 {
				args = "(token: " + strArg([]string{"t", "fail", ""}, []interface{}{"t", "fail", "x y"}, "String") + ")"
			} else if r.Intn(2) == 0 {
				args = "(flag: " + boolArg() + ", token: " + strArg([]string{"t"}, []interface{}{"t", "u"}, "String") + ")"
			}
			return key() + []string{"viewer", "current"}[r.Intn(2)] + args + "<DIRS> { id }"
		case 3:
			return key() + "__typename<DIRS>"
		case 4, 5:
			return key() + "__type(name: " + strArg([]string{"User", "Photo", "Nope", "__Type"}, []interface{}{"User", "Query", "Nope", 7}, "String!") + ")<DIRS> { name }"
		default:
			return key() + "__schema<DIRS> { queryType { name } }"
		}
	}
	sels = func(depth int) string {
		var parts []string
		for n := 1 + r.Intn(3); n > 0; n-- {
			switch k := r.Intn(8); {
			case k < 5 || depth <= 0:
				parts = append(parts, field())
			case k < 7:
				cond := []string{"... on Query", "..."}[r.Intn(2)]
				parts = append(parts, cond+dirs()+" { "+sels(depth-1)+" }")
			default:
				name := fmt.Sprintf("F%d", len(frags))
				frags = append(frags, "") // reserve the name
				idx := len(frags) - 1
				frags[idx] = fmt.Sprintf("fragment %s on Query { %s }", name, sels(depth-1))
				parts = append(parts, "..."+name+dirs())
				if r.Intn(4) == 0 {
					parts = append(parts, "..."+name+dirs())
				}
			}
		}
		return strings.Join(parts, " ")
	}
	body := sels(2)
	q := "query"
	if len(defs) > 0 {
		q += "(" + strings.Join(defs, ", ") + ")"
	}
	return gqCase{Query: q + " { " + body + " } " + strings.Join(frags, " "), Vars: vars}
}

func gqVal(v *ast.Value) map[string]interface{} {
	if v == nil {
		return map[string]interface{}{"k": "null"}
	}
	switch v.Kind {
	case ast.Variable:
		return map[string]interface{}{"k": "var", "v": v.Raw}
	case ast.StringValue, ast.BlockValue:
		return map[string]interface{}{"k": "str", "v": v.Raw}
	case ast.BooleanValue:
		return map[string]interface{}{"k": "bool", "v": v.Raw == "true"}
	case ast.NullValue:
		return map[string]interface{}{"k": "null"}
	}
	return map[string]interface{}{"k": "other", "v": v.Raw}
}

func gqDirs(ds ast.DirectiveList) []interface{} {
	out := []interface{}{}
	for _, d := range ds {
		m := map[string]interface{}{"name": d.Name}
		if a := d.Arguments.ForName("if"); a != nil {
			m["if"] = gqVal(a.Value)
		}
		out = append(out, m)
	}
	return out
}

func gqSels(ss ast.SelectionSet) []interface{} {
	out := []interface{}{}
	for _, sel := range ss {
		switch s := sel.(type) {
		case *ast.Field:
			// the resolvers get their arguments by name: hand them to the model in a fixed order (names descending)
			args := []interface{}{}
			sorted := append(ast.ArgumentList{}, s.Arguments...)
			sort.SliceStable(sorted, func(a, b int) bool { return sorted[a].Name > sorted[b].Name })
			for _, a := range sorted {
				args = append(args, map[string]interface{}{"name": a.Name, "value": gqVal(a.Value)})
			}
			out = append(out, map[string]interface{}{"kind": "field", "key": s.Alias, "name": s.Name, "args": args, "dirs": gqDirs(s.Directives), "sub": gqSels(s.SelectionSet)})
		case *ast.InlineFragment:
			out = append(out, map[string]interface{}{"kind": "inline", "dirs": gqDirs(s.Directives), "sub": gqSels(s.SelectionSet)})
		case *ast.FragmentSpread:
			out = append(out, map[string]interface{}{"kind": "spread", "name": s.Name, "dirs": gqDirs(s.Directives)})
		}
	}
	return out
}

// GwQueryCorr runs one generated document through the real Gateway.Query and through the model.
func GwQueryCorr(c *Ctx, r *rand.Rand) (fails []Failure, feat string) {
	if c.Drv == nil {
		return nil, ""
	}
	f := gqGateway()
	gc := genGqCase(r)
	doc, errs := gqlparser.LoadQuery(f.Merged, gc.Query)
	if errs != nil {
		return nil, "invalid"
	}
	bad := func(what string, exp, obs interface{}) []Failure {
		return []Failure{{Channel: "L2.gateway-query", Classifier: "unclassified", What: what, Input: gc, Expected: exp, Observed: obs}}
	}
	// the variables as the code sees them: a variable without a value falls back to the default of its definition (none
	// is declared here)
	var vars []interface{}
	var names []string
	for n := range gc.Vars {
		names = append(names, n)
	}
	sort.Strings(names)
	for _, n := range names {
		var vv map[string]interface{}
		switch v := gc.Vars[n].(type) {
		case nil:
			vv = map[string]interface{}{"k": "null"}
		case string:
			vv = map[string]interface{}{"k": "str", "v": v}
		case bool:
			vv = map[string]interface{}{"k": "bool", "v": v}
		default:
			vv = map[string]interface{}{"k": "other", "v": fmt.Sprint(v)}
		}
		vars = append(vars, map[string]interface{}{"name": n, "value": vv})
	}
	var fragJSON []interface{}
	for _, fd := range doc.Fragments {
		fragJSON = append(fragJSON, map[string]interface{}{"name": fd.Name, "sub": gqSels(fd.SelectionSet)})
	}
	var types []string
	for n := range f.Merged.Types {
		types = append(types, n)
	}
	sort.Strings(types)
	ans, err := c.Drv.Call(map[string]interface{}{"op": "gateway-query", "sels": gqSels(doc.Operations[0].SelectionSet), "frags": fragJSON, "vars": vars,
		"types": types, "fields": []string{"node", "viewer", "current"}})
	if err != nil {
		return []Failure{{Channel: "harness", Classifier: "harness-error", What: err.Error(), Input: gc}}, ""
	}
	// the real thing
	before := docPrint(doc)
	var got map[string]interface{}
	var gerr error
	var panicked interface{}
	func() {
		defer func() { panicked = recover() }()
		gerr = f.GW.Query(context.Background(), &graphql.QueryInput{Query: gc.Query, QueryDocument: doc, Variables: gc.Vars}, &got)
	}()
	if after := docPrint(doc); after != before {
		return bad("Gateway.Query wrote into the document it was given (a plan's document is shared between requests): "+diffHint(before, after), before, after), ""
	}
	want := map[string]interface{}{}
	wantFail, wantCrash := false, false
	var failMsgs []string
	for _, a := range ans["answers"].([]interface{}) {
		m := a.(map[string]interface{})
		k := m["key"].(string)
		switch m["kind"] {
		case "typename":
			want[k] = "Query"
		case "schema":
			want[k] = "<schema>"
		case "type":
			want[k] = map[string]interface{}{"name": m["v"]}
		case "null":
			want[k] = nil
		case "entity":
			want[k] = map[string]interface{}{"id": m["v"]}
		case "failed":
			wantFail = true
			failMsgs = append(failMsgs, fmt.Sprint(m["v"]))
		case "crash":
			wantCrash = true
		}
	}
	obs := map[string]interface{}{"result": got, "error": ErrString(gerr), "panic": fmt.Sprint(panicked)}
	if panicked != nil {
		if wantCrash {
			return nil, "crash-agreed"
		}
		return bad(fmt.Sprintf("Gateway.Query panicked: %v", panicked), ans, obs), ""
	}
	if wantCrash {
		return bad("the model says the code dereferences a missing argument here; the real Query returned", ans, obs), ""
	}
	if wantFail {
		if gerr == nil {
			return bad("a resolver fails in the model ("+strings.Join(failMsgs, "; ")+") but the real Query reports no error", ans, obs), ""
		}
		ok := false
		for _, m := range failMsgs {
			if strings.Contains(gerr.Error(), m) {
				ok = true
			}
		}
		if !ok {
			return bad("the real Query fails with another error than the model's resolver error: "+firstLine(gerr.Error()), ans, obs), ""
		}
		return nil, "failed-agreed"
	}
	if gerr != nil {
		return bad("the real Query fails where the model answers: "+firstLine(gerr.Error()), ans, obs), ""
	}
	// what lies beneath __schema is Intro's subject
	for k, v := range got {
		if w, ok := want[k]; ok && w == "<schema>" && v != nil {
			got[k] = "<schema>"
		}
	}
	if Canon(got) != Canon(want) {
		return bad("the answers of the gateway's own resolver differ from the model's: "+diffHint(Canon(want), Canon(got)), want, got), ""
	}
	return nil, "compared"
}
