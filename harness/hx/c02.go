package hx

import (
	"fmt"
	"reflect"
	"strings"
	"time"

	"github.com/vektah/gqlparser/v2"
	"github.com/vektah/gqlparser/v2/ast"
)

// ---------------------------------------------------------------------------------------------
// C02 — every outbound query is valid for, and confined to, its target service
//   L0: each QueryInput a service receives is validated with the real gqlparser validator against that
//   service's own schema; variable values are compared with the client's
// ---------------------------------------------------------------------------------------------

type c02 struct{}

func (c02) Cases(tier string) int {
	switch tier {
	case "thorough":
		return len(FedCorpus) + 12000
	case "search":
		return len(FedCorpus) + 3000
	}
	return len(FedCorpus) + 1500
}

func (c02) Rule() string {
	return "same federated stream as C01 (corpus, then random federations x data x type-directed queries with variables in arguments and in @skip/@include on fields, inline fragments and spreads); every request received by every in-process service is checked: validates against the service's own schema with gqlparser's full rule set (unknown fields/arguments/types, undefined or unused variables, unknown or unused fragments), operation kind = client's for root steps and query for node(id) follow-ups, variable values supplied only for declared variables and equal to the client's; non-trivial = at least 2 service calls; distinct = distinct (federation, query); every fifth case a federation whose services declare an executable directive of their own (@audience with a list and an input-object argument) used on fields, inline fragments and spreads with variables inside the argument literals (L0.directive-variables)"
}

// CheckCalls applies the C02 oracle to the request logs of an executed case.
func CheckCalls(fc *FedCase) []Failure {
	var fails []Failure
	clientKind := fc.Op.Operation
	for _, svc := range fc.Fed.Services {
		for _, call := range svc.Calls() {
			bad := func(what string) {
				cl := InKnownRegion(fc.Classes)
				if cl == "" {
					cl = fc.Classifier()
				}
				fails = append(fails, Failure{Channel: "L0.service-validation", Classifier: cl, What: what, Input: fc.In,
					Observed: map[string]interface{}{"service": svc.URL, "query": call.Query, "variables": call.Variables}})
			}
			if call.Rejected != "" {
				bad("service " + svc.URL + " rejects the step query: " + firstLine(call.Rejected))
				continue
			}
			doc, errs := gqlparser.LoadQuery(svc.Schema, call.Query)
			if errs != nil || len(doc.Operations) != 1 {
				bad("step query is not a single valid operation")
				continue
			}
			op := doc.Operations[0]
			dependent := false
			if len(op.SelectionSet) == 1 {
				if f, ok := op.SelectionSet[0].(*ast.Field); ok && f.Name == "node" {
					if a := f.Arguments.ForName("id"); a != nil && a.Value.Kind == ast.Variable && a.Value.Raw == "id" && fc.Op.VariableDefinitions.ForName("id") == nil {
						dependent = true
					}
				}
			}
			if dependent && op.Operation != ast.Query {
				bad("follow-up fetch is not a plain query")
			}
			if !dependent && op.Operation != clientKind {
				bad(fmt.Sprintf("root step has operation kind %s, the client's is %s", op.Operation, clientKind))
			}
			for k, v := range call.Variables {
				if op.VariableDefinitions.ForName(k) == nil {
					bad("a value is sent for variable $" + k + " which the step query does not declare")
					continue
				}
				if k == "id" && dependent {
					continue
				}
				if !reflect.DeepEqual(v, fc.In.Vars[k]) {
					bad(fmt.Sprintf("value of $%s changed on the way: client %v, sent %v", k, fc.In.Vars[k], v))
				}
			}
			for _, vd := range op.VariableDefinitions {
				if vd.Variable == "id" && dependent {
					continue
				}
				if cv, ok := fc.In.Vars[vd.Variable]; ok {
					if _, sent := call.Variables[vd.Variable]; !sent {
						bad(fmt.Sprintf("declared variable $%s (client value %v) was not forwarded", vd.Variable, cv))
					}
				}
			}
			if call.OpName != fc.Op.Name {
				bad(fmt.Sprintf("operation name %q sent, client's operation is %q", call.OpName, fc.Op.Name))
			}
		}
	}
	return fails
}

func (c02) Run(c *Ctx, i int) CaseResult {
	if i%5 == 2 {
		// executable directives of the services' own, with variables inside list and object arguments
		if df := DirectiveVariables(c.Rand(i + 68000000)); len(df) > 0 {
			return CaseResult{ID: fmt.Sprintf("gen:%d", i), Nontrivial: true, Fails: df}
		}
	}
	var in FedInput
	feats := map[string]bool{}
	id := ""
	if i < len(FedCorpus) {
		in, id = FedCorpus[i].In, "corpus:"+FedCorpus[i].ID
	} else {
		in, feats = GenFedInput(c, i+500000, "C02")
		id = fmt.Sprintf("gen:%d", i)
		if i%5 == 0 {
			// several operations declaring the SAME variable name with different types and defaults: every
			// step must carry the definition of its own operation
			r := c.Rand(i + 500001)
			type tmpl struct {
				q    string
				vars map[string]interface{}
			}
			ts := []tmpl{
				{`query %s($k: ID!) { user(id: $k) { firstName lastName nick } }`, map[string]interface{}{"k": "u1"}},
				{`query %s($k: Boolean!) { me { firstName lastName @include(if: $k) nick @skip(if: $k) } }`, map[string]interface{}{"k": true}},
				{`query %s($k: Boolean = false) { allUsers { firstName nick @skip(if: $k) lastName } }`, map[string]interface{}{}},
				{`query %s($k: ID = "u2") { user(id: $k) { nick lastName } }`, map[string]interface{}{}},
				{`query %s($k: Boolean = true) { topPhoto { url likes @include(if: $k) owner { nick @include(if: $k) } } }`, map[string]interface{}{"k": false}},
			}
			r.Shuffle(len(ts), func(a, b int) { ts[a], ts[b] = ts[b], ts[a] })
			n := 2 + r.Intn(2)
			var ops []string
			for k := 0; k < n; k++ {
				ops = append(ops, fmt.Sprintf(ts[k].q, fmt.Sprintf("Op%d", k)))
			}
			pick := r.Intn(n)
			in.Query, in.OpName, in.Vars = strings.Join(ops, " "), fmt.Sprintf("Op%d", pick), ts[pick].vars
			in.OddIDs = false
			feats = map[string]bool{"multi-operation-shared-variable-name": true}
		}
	}
	if i >= len(FedCorpus) && i%5 == 1 {
		// the client supplies only SOME of the declared (defaulted) variables, and the root fields go to different
		// services using different variables: every call must carry values of its own step's variables only
		r := c.Rand(i + 500002)
		in.Spec = FixedFed()
		in.Query = `query Partial($k: ID = "u2", $s: Boolean = true, $t: Boolean = false, $u: Boolean = true) { user(id: $k) { firstName nick @include(if: $u) } allPhotos { url @include(if: $s) likes @skip(if: $t) } me { firstName @skip(if: $t) lastName @include(if: $s) } }`
		all := map[string]interface{}{"k": []string{"u1", "u2", "u3"}[r.Intn(3)], "s": r.Intn(2) == 0, "t": r.Intn(2) == 0, "u": r.Intn(2) == 0}
		in.Vars = map[string]interface{}{}
		for k, v := range all {
			switch r.Intn(5) {
			case 0, 1:
				in.Vars[k] = v
			case 2:
				// given, as null: not the same as not given (a null overrides the default): it must reach the services
				if k != "k" {
					in.Vars[k] = nil
				}
			}
		}
		in.OpName, in.OddIDs = "", false
		feats = map[string]bool{"partially-supplied-variables": true, fmt.Sprintf("supplied-%d-of-4", len(in.Vars)): true}
	}
	res := CaseResult{ID: id, Key: fmt.Sprint(in.Spec.SDLs, in.Spec.Priorities, in.Query, in.Vars)}
	fc, err := RunFed(c, in, 5*time.Second)
	if err != nil {
		res.Fails = append(res.Fails, Failure{Channel: "harness", Classifier: "harness-error", What: err.Error(), Input: in})
		return res
	}
	if fc.Invalid != "" {
		res.Skipped = "invalid-query:" + fc.Invalid
		return res
	}
	if i >= len(FedCorpus) {
		if reg := InKnownRegion(fc.Classes); reg != "" {
			res.Skipped = "known-region:" + reg
			return res
		}
	}
	if fc.Out.PlanHung || fc.Out.PlanErr {
		res.Skipped = "not-planned" // planning totality is C08's subject
		return res
	}
	res.Features = FeatList(feats)
	res.Nontrivial = fc.Fed.TotalCalls() >= 2
	res.Counters = map[string]int{"service_calls": fc.Fed.TotalCalls()}
	fails := CheckCalls(fc)
	// L1: the plan the calls came from against the planner model
	planFails := PlanCorrFails(c, fc, in)
	if len(fails) > 0 && i >= len(FedCorpus) {
		// minimise: keep failing the same oracle
		q := ShrinkQuery(in.Query, func(q string) bool {
			in2 := in
			in2.Query = q
			fc2, err := RunFed(c, in2, 5*time.Second)
			if err != nil || fc2.Invalid != "" || fc2.Out.PlanErr || fc2.Out.PlanHung || InKnownRegion(fc2.Classes) != "" {
				return false
			}
			return len(CheckCalls(fc2)) > 0
		}, 300)
		in2 := in
		in2.Query = q
		if fc2, err := RunFed(c, in2, 5*time.Second); err == nil && fc2.Invalid == "" {
			if f2 := CheckCalls(fc2); len(f2) > 0 {
				fails = f2
			}
		}
	}
	if len(fails) > 3 {
		fails = fails[:3]
	}
	res.Fails = append(fails, planFails...)
	if i%211 == 0 || i < 2 {
		var calls []interface{}
		for _, s := range fc.Fed.Services {
			for _, cl := range s.Calls() {
				calls = append(calls, map[string]interface{}{"service": s.URL, "query": cl.Query, "variables": cl.Variables})
			}
		}
		res.Sample = map[string]interface{}{"query": in.Query, "vars": in.Vars, "outbound": calls}
	}
	return res
}

func init() { Runners["C02"] = c02{} }
