package hx

import (
	"fmt"
	"math/rand"
	"strings"

	"github.com/nautilus/gateway"
)

// L2.urlmap: gateway.FieldURLMap's RegisterURL / Concat / URLFor against Um (lean/GwModel/UrlMap.lean): generated
// sequences of registrations, concatenations and lookups — short and very long type and field names, locations that
// are prefixes and substrings of one another, blank locations, repeated registrations — through the real map and
// through the model; every lookup must answer alike (the list in order, or an error).
func UrlMapCorr(c *Ctx, r *rand.Rand) []Failure {
	if c.Drv == nil {
		return nil
	}
	long := strings.Repeat("OrganisationInventoryReportingPeriod", 2)
	parents := []string{"User", "Query", "T", "Node", long, long + "Edge"}
	fields := []string{"id", "name", "x", "__typename", "totalNumberOfItemsAcquiredDuringTheReportingPeriod", strings.Repeat("f", 80)}
	locs := []string{"http://users.internal/graphql", "http://users.internal/graphql/v2", "http://users.internal", "A", "AB", "B", "", "🎉"}
	pick := func(l []string) string { return l[r.Intn(len(l))] }
	m := gateway.FieldURLMap{}
	var ops []map[string]interface{}
	var got []interface{}
	for n := 4 + r.Intn(12); n > 0; n-- {
		switch r.Intn(5) {
		case 0, 1:
			p, f := pick(parents), pick(fields)
			var ls []string
			for k := r.Intn(3); k >= 0; k-- {
				ls = append(ls, pick(locs))
			}
			if r.Intn(8) == 0 {
				ls = nil
			}
			m.RegisterURL(p, f, ls...)
			li := make([]interface{}, len(ls))
			for i, l := range ls {
				li[i] = l
			}
			ops = append(ops, map[string]interface{}{"do": "register", "parent": p, "field": f, "locs": li})
		case 2:
			other := gateway.FieldURLMap{}
			var entries []interface{}
			seen := map[string]bool{}
			for k := r.Intn(3); k >= 0; k-- {
				p, f := pick(parents), pick(fields)
				if seen[p+"."+f] {
					continue
				}
				seen[p+"."+f] = true
				var ls []string
				var li []interface{}
				for j := r.Intn(3); j >= 0; j-- {
					l := pick(locs)
					ls = append(ls, l)
					li = append(li, l)
				}
				other.RegisterURL(p, f, ls...)
				entries = append(entries, map[string]interface{}{"parent": p, "field": f, "locs": li})
			}
			m = m.Concat(other)
			ops = append(ops, map[string]interface{}{"do": "concat", "other": entries})
		default:
			p, f := pick(parents), pick(fields)
			l, err := m.URLFor(p, f)
			if err != nil {
				got = append(got, map[string]interface{}{"error": err.Error()})
			} else {
				li := make([]interface{}, len(l))
				for i, x := range l {
					li[i] = x
				}
				got = append(got, map[string]interface{}{"ok": li})
			}
			ops = append(ops, map[string]interface{}{"do": "get", "parent": p, "field": f})
		}
	}
	ans, err := c.Drv.Call(map[string]interface{}{"op": "urlmap", "ops": ops})
	if err != nil {
		return []Failure{{Channel: "harness", Classifier: "harness-error", What: err.Error(), Input: ops}}
	}
	want, _ := ans["answers"].([]interface{})
	if got == nil {
		got = []interface{}{}
	}
	if Canon(want) != Canon(got) {
		return []Failure{{Channel: "L2.urlmap", Classifier: "unclassified", What: "FieldURLMap and the model answer a sequence of registrations, concatenations and lookups differently: " + diffHint(Canon(want), Canon(got)),
			Input: ops, Expected: want, Observed: got}}
	}
	_ = fmt.Sprint
	return nil
}
