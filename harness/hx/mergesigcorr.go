package hx

import (
	"fmt"
	"math/rand"
	"sort"
	"strings"
	"time"

	"github.com/vektah/gqlparser/v2"
	"github.com/vektah/gqlparser/v2/ast"
)

// L2.mergesig: the comparisons merge.go makes between two declarations of one field (mergeTypesEqual,
// mergeArgumentDefinitionList with mergeValuesEqual for the defaults) against Ms.typesEqual / Ms.argDefsEq
// (lean/GwModel/MergeSig.lean). Two services declare `type Thing { f(args): T }` with generated types (named, lists of
// lists, nullability at every level), argument lists (reordered, renamed, retyped, dropped) and default values
// (scalars whose text coincides across kinds, lists, objects, nested); gateway.New must succeed exactly when the
// model accepts both the type and the arguments.

func serTy(t *ast.Type) interface{} {
	if t == nil {
		return nil
	}
	return map[string]interface{}{"named": t.NamedType, "nonNull": t.NonNull, "elem": serTy(t.Elem)}
}

func serVal(v *ast.Value) interface{} {
	if v == nil {
		return nil
	}
	children := []interface{}{}
	for _, c := range v.Children {
		children = append(children, map[string]interface{}{"name": c.Name, "value": serVal(c.Value)})
	}
	return map[string]interface{}{"kind": fmt.Sprint(v.Kind), "raw": v.Raw, "children": children}
}

func serFieldSig(f *ast.FieldDefinition) map[string]interface{} {
	args := []interface{}{}
	for _, a := range f.Arguments {
		args = append(args, map[string]interface{}{"name": a.Name, "type": serTy(a.Type), "default": serVal(a.DefaultValue)})
	}
	return map[string]interface{}{"type": serTy(f.Type), "args": args}
}

var sigTypes = []string{"String", "String!", "[String]", "[String!]", "[String]!", "[String!]!", "[[String]]", "[[String!]]", "[[String]!]", "[[String]]!", "Int", "[Int]", "ID", "In", "[In!]"}

var sigDefaults = map[string][]string{
	"String": {"", ` = "a"`, ` = "1"`, ` = "null"`, ` = "true"`},
	"Int":    {"", ` = 1`, ` = 2`},
	"ID":     {"", ` = "1"`, ` = 1`},
	"[Int]":  {"", ` = [1, 2]`, ` = [2, 1]`, ` = [1]`, ` = []`, ` = null`},
	"In":     {"", ` = {a: 1}`, ` = {a: 2}`, ` = {a: 1, b: [1]}`, ` = {b: [1], a: 1}`, ` = {a: 1, b: [2]}`, ` = {a: 1, b: []}`},
	"[In!]":  {"", ` = [{a: 1}]`, ` = [{a: 1}, {a: 1}]`, ` = [{a: 2}]`},
}

func genSigField(r *rand.Rand, base []string) (string, []string) {
	// base: the argument declarations of the other service, to be perturbed; empty: draw afresh
	var args []string
	if base == nil {
		n := r.Intn(4)
		names := []string{"a", "b", "c", "d"}
		r.Shuffle(len(names), func(i, j int) { names[i], names[j] = names[j], names[i] })
		for _, nm := range names[:n] {
			t := []string{"String", "Int", "ID", "[Int]", "In", "[In!]"}[r.Intn(6)]
			ty := t
			if r.Intn(4) == 0 && !strings.HasPrefix(t, "[") {
				ty = t + "!"
			}
			d := sigDefaults[t][r.Intn(len(sigDefaults[t]))]
			if strings.HasSuffix(ty, "!") && d == " = null" {
				d = ""
			}
			args = append(args, fmt.Sprintf("%s: %s%s", nm, ty, d))
		}
	} else {
		args = append([]string{}, base...)
		switch r.Intn(6) {
		case 0: // reorder
			r.Shuffle(len(args), func(i, j int) { args[i], args[j] = args[j], args[i] })
		case 1: // drop one
			if len(args) > 0 {
				k := r.Intn(len(args))
				args = append(args[:k], args[k+1:]...)
			}
		case 2: // another default
			if len(args) > 0 {
				k := r.Intn(len(args))
				parts := strings.SplitN(args[k], " = ", 2)
				decl := strings.SplitN(parts[0], ": ", 2)
				t := strings.TrimSuffix(decl[1], "!")
				if ds, ok := sigDefaults[t]; ok {
					args[k] = parts[0] + ds[r.Intn(len(ds))]
				}
			}
		case 3: // rename one
			if len(args) > 0 {
				k := r.Intn(len(args))
				args[k] = "z" + args[k]
			}
		case 4: // another nullability
			if len(args) > 0 {
				k := r.Intn(len(args))
				parts := strings.SplitN(args[k], " = ", 2)
				if strings.HasSuffix(parts[0], "!") {
					parts[0] = strings.TrimSuffix(parts[0], "!")
				} else {
					parts[0] += "!"
				}
				args[k] = strings.Join(parts, " = ")
			}
		}
	}
	a := ""
	if len(args) > 0 {
		a = "(" + strings.Join(args, ", ") + ")"
	}
	return a, args
}

// MergeSigCorr runs one generated pair of declarations through gateway.New and through the model.
func MergeSigCorr(c *Ctx, r *rand.Rand) (fails []Failure, feat string) {
	if c.Drv == nil {
		return nil, ""
	}
	t1 := sigTypes[r.Intn(len(sigTypes))]
	t2 := t1
	if r.Intn(2) == 0 {
		t2 = sigTypes[r.Intn(len(sigTypes))]
	}
	a1, base := genSigField(r, nil)
	a2 := a1
	if r.Intn(2) == 0 {
		a2, _ = genSigField(r, base)
	}
	sdl := func(args, typ string, k int) string {
		return fmt.Sprintf("input In { a: Int b: [Int] }\ntype Thing { f%s: %s }\ntype Query { thing%d: Thing }\n", args, typ, k)
	}
	s1, s2 := sdl(a1, t1, 1), sdl(a2, t2, 2)
	in := map[string]interface{}{"service1": s1, "service2": s2}
	p1, e1 := gqlparser.LoadSchema(&ast.Source{Input: s1})
	p2, e2 := gqlparser.LoadSchema(&ast.Source{Input: s2})
	if e1 != nil || e2 != nil {
		return nil, "invalid-sdl"
	}
	f1, f2 := p1.Types["Thing"].Fields.ForName("f"), p2.Types["Thing"].Fields.ForName("f")
	ans, err := c.Drv.Call(map[string]interface{}{"op": "mergesig", "a": serFieldSig(f1), "b": serFieldSig(f2)})
	if err != nil {
		return []Failure{{Channel: "harness", Classifier: "harness-error", What: err.Error(), Input: in}}, ""
	}
	want := ans["types"] == true && ans["args"] == true
	for _, order := range [][]string{{s1, s2}, {s2, s1}} {
		spec := FedSpec{SDLs: map[string]string{"S1": order[0], "S2": order[1]}, Order: []string{"S1", "S2"}}
		_, gerr := NewFed(spec, Store{})
		if gerr != nil && strings.HasPrefix(gerr.Error(), "PANIC") {
			return []Failure{{Channel: "L2.mergesig", Classifier: "unclassified", What: "gateway.New panicked on two declarations of one field: " + firstLine(gerr.Error()), Input: in}}, ""
		}
		if (gerr == nil) != want {
			what := "two declarations of one field that differ (the model rejects them) are accepted"
			if gerr != nil {
				what = "two identical declarations of one field (the model accepts them) are rejected: " + firstLine(gerr.Error())
			}
			return []Failure{{Channel: "L2.mergesig", Classifier: "unclassified", What: what, Input: in, Expected: ans, Observed: ErrString(gerr)}}, ""
		}
	}
	if want {
		return nil, "sig-accepted"
	}
	return nil, "sig-rejected"
}

// L2.mergedirs: merge.go's comparison of the directives APPLIED to two declarations of one thing against Md.listsEqual
// (lean/GwModel/MergeDirs.lean). Two lists over a small alphabet of applications — repeatable directives applied
// several times, with equal and with different arguments — are written on a shared object type or on one of its
// fields; both service orders go through gateway.New.
var dirAlphabet = []string{`@r(n: 1)`, `@r(n: 2)`, `@r`, `@t(x: "a")`, `@t(x: "b")`, `@s`}

func genDirList(r *rand.Rand) []string {
	var l []string
	usedS := false
	for n := r.Intn(5); n > 0; n-- {
		d := dirAlphabet[r.Intn(len(dirAlphabet))]
		if d == "@s" {
			if usedS {
				continue // not repeatable
			}
			usedS = true
		}
		l = append(l, d)
	}
	return l
}

func MergeDirsCorr(c *Ctx, r *rand.Rand) (fails []Failure, feat string) {
	if c.Drv == nil {
		return nil, ""
	}
	l1 := genDirList(r)
	var l2 []string
	switch r.Intn(5) {
	case 0:
		l2 = genDirList(r)
	case 1: // a permutation
		l2 = append([]string{}, l1...)
		r.Shuffle(len(l2), func(i, j int) { l2[i], l2[j] = l2[j], l2[i] })
	case 2: // one application replaced by another one that also occurs (same length, same set, other multiset)
		l2 = append([]string{}, l1...)
		if len(l2) >= 2 {
			l2[r.Intn(len(l2))] = l1[r.Intn(len(l1))]
		}
	case 3: // one application replaced by any
		l2 = append([]string{}, l1...)
		if len(l2) >= 1 {
			d := dirAlphabet[r.Intn(len(dirAlphabet)-1)]
			l2[r.Intn(len(l2))] = d
		}
	default:
		l2 = append([]string{}, l1...)
	}
	onType := r.Intn(2) == 0
	sdl := func(l []string, k int) string {
		t, f := "", ""
		if onType {
			t = " " + strings.Join(l, " ")
		} else {
			f = " " + strings.Join(l, " ")
		}
		return fmt.Sprintf("directive @r(n: Int) repeatable on FIELD_DEFINITION | OBJECT\ndirective @t(x: String) repeatable on FIELD_DEFINITION | OBJECT\ndirective @s on FIELD_DEFINITION | OBJECT\ntype Thing%s { f: String%s }\ntype Query { thing%d: Thing }\n", t, f, k)
	}
	s1, s2 := sdl(l1, 1), sdl(l2, 2)
	in := map[string]interface{}{"service1": s1, "service2": s2}
	if _, e := gqlparser.LoadSchema(&ast.Source{Input: s1}); e != nil {
		return nil, "invalid-sdl"
	}
	if _, e := gqlparser.LoadSchema(&ast.Source{Input: s2}); e != nil {
		return nil, "invalid-sdl"
	}
	ans, err := c.Drv.Call(map[string]interface{}{"op": "mergedirs", "a": l1, "b": l2})
	if err != nil {
		return []Failure{{Channel: "harness", Classifier: "harness-error", What: err.Error(), Input: in}}, ""
	}
	want := ans["equal"] == true
	for _, order := range [][]string{{s1, s2}, {s2, s1}} {
		spec := FedSpec{SDLs: map[string]string{"S1": order[0], "S2": order[1]}, Order: []string{"S1", "S2"}}
		_, gerr := NewFed(spec, Store{})
		if gerr != nil && strings.HasPrefix(gerr.Error(), "PANIC") {
			return []Failure{{Channel: "L2.mergedirs", Classifier: "unclassified", What: "gateway.New panicked on two declarations with applied directives: " + firstLine(gerr.Error()), Input: in}}, ""
		}
		if (gerr == nil) != want {
			what := "two declarations whose applied directives differ (not the same applications, each as many times) are accepted"
			if gerr != nil {
				what = "two declarations with the same applied directives (each as many times, in another order) are rejected: " + firstLine(gerr.Error())
			}
			return []Failure{{Channel: "L2.mergedirs", Classifier: "unclassified", What: what, Input: in, Expected: ans, Observed: ErrString(gerr)}}, ""
		}
	}
	if want {
		return nil, "dirs-accepted"
	}
	return nil, "dirs-rejected"
}

// L2.mergelocs: merge.go's merging of the location lists of two definitions of one directive against Ml.mergeLocs
// (lean/GwModel/MergeLocs.lean): two lists over all nineteen locations, through gateway.New in both service orders;
// the outcome (merged or refused) and, when merged, the merged definition's locations must be the model's.
var allLocations = []string{"QUERY", "MUTATION", "SUBSCRIPTION", "FIELD", "FRAGMENT_DEFINITION", "FRAGMENT_SPREAD", "INLINE_FRAGMENT", "VARIABLE_DEFINITION",
	"SCHEMA", "SCALAR", "OBJECT", "FIELD_DEFINITION", "ARGUMENT_DEFINITION", "INTERFACE", "UNION", "ENUM", "ENUM_VALUE", "INPUT_OBJECT", "INPUT_FIELD_DEFINITION"}

func genLocList(r *rand.Rand, base []string) []string {
	var l []string
	if base == nil {
		for n := 1 + r.Intn(5); n > 0; n-- {
			x := allLocations[r.Intn(len(allLocations))]
			dup := false
			for _, y := range l {
				dup = dup || y == x
			}
			if !dup {
				l = append(l, x)
			}
		}
		return l
	}
	l = append([]string{}, base...)
	switch r.Intn(5) {
	case 0:
		r.Shuffle(len(l), func(i, j int) { l[i], l[j] = l[j], l[i] })
	case 1: // one more type-system location
		l = append(l, allLocations[8+r.Intn(11)])
	case 2: // one more executable location
		l = append(l, allLocations[r.Intn(8)])
	case 3: // one dropped
		if len(l) > 1 {
			k := r.Intn(len(l))
			l = append(l[:k], l[k+1:]...)
		}
	}
	// no repetitions (invalid SDL)
	seen := map[string]bool{}
	var out []string
	for _, x := range l {
		if !seen[x] {
			seen[x] = true
			out = append(out, x)
		}
	}
	return out
}

func MergeLocsCorr(c *Ctx, r *rand.Rand) (fails []Failure, feat string) {
	if c.Drv == nil {
		return nil, ""
	}
	l1 := genLocList(r, nil)
	l2 := genLocList(r, l1)
	if r.Intn(4) == 0 {
		l2 = genLocList(r, nil)
	}
	sdl := func(l []string, k int) string {
		return fmt.Sprintf("directive @mark(n: Int) on %s\ntype Query { thing%d: String }\n", strings.Join(l, " | "), k)
	}
	s1, s2 := sdl(l1, 1), sdl(l2, 2)
	in := map[string]interface{}{"service1": s1, "service2": s2}
	if _, e := gqlparser.LoadSchema(&ast.Source{Input: s1}); e != nil {
		return nil, "invalid-sdl"
	}
	if _, e := gqlparser.LoadSchema(&ast.Source{Input: s2}); e != nil {
		return nil, "invalid-sdl"
	}
	for oi, order := range [][2][]string{{l1, l2}, {l2, l1}} {
		ans, err := c.Drv.Call(map[string]interface{}{"op": "mergelocs", "a": order[0], "b": order[1]})
		if err != nil {
			return []Failure{{Channel: "harness", Classifier: "harness-error", What: err.Error(), Input: in}}, ""
		}
		sdls := []string{s1, s2}
		if oi == 1 {
			sdls = []string{s2, s1}
		}
		spec := FedSpec{SDLs: map[string]string{"S1": sdls[0], "S2": sdls[1]}, Order: []string{"S1", "S2"}}
		f, gerr := NewFed(spec, Store{})
		if gerr != nil && strings.HasPrefix(gerr.Error(), "PANIC") {
			return []Failure{{Channel: "L2.mergelocs", Classifier: "unclassified", What: "gateway.New panicked on two definitions of one directive: " + firstLine(gerr.Error()), Input: in}}, ""
		}
		wantOK := ans["ok"] != nil
		if (gerr == nil) != wantOK {
			what := "two definitions of a directive that differ in an executable location are merged"
			if gerr != nil {
				what = "two definitions of a directive with the same executable locations are refused: " + firstLine(gerr.Error())
			}
			return []Failure{{Channel: "L2.mergelocs", Classifier: "unclassified", What: what, Input: in, Expected: ans, Observed: ErrString(gerr)}}, ""
		}
		if gerr == nil {
			f.Plan(`{ __typename }`, 5*time.Second)
			if f.Merged == nil || f.Merged.Directives["mark"] == nil {
				return []Failure{{Channel: "L2.mergelocs", Classifier: "unclassified", What: "the merged schema has no definition of the directive both services define", Input: in}}, ""
			}
			var got, want []string
			for _, l := range f.Merged.Directives["mark"].Locations {
				got = append(got, string(l))
			}
			for _, x := range ans["ok"].([]interface{}) {
				want = append(want, x.(string))
			}
			sort.Strings(got)
			sort.Strings(want)
			if fmt.Sprint(got) != fmt.Sprint(want) {
				return []Failure{{Channel: "L2.mergelocs", Classifier: "unclassified", What: fmt.Sprintf("the merged directive allows %v, the model %v", got, want), Input: in, Expected: want, Observed: got}}, ""
			}
		}
	}
	return nil, "locs-compared"
}
