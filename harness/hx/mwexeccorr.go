package hx

import (
	"context"
	"errors"
	"fmt"
	"math/rand"

	"github.com/nautilus/gateway"
	"github.com/nautilus/graphql"
	"github.com/vektah/gqlparser/v2"
)

// L2.execute-tail: what Gateway.Execute does after the executor has returned — the built-in scrubber, then the user's
// response middlewares, any of which may fail — against Mw.execute (lean/GwModel/Middleware.lean).
//
// The executor is canned (data that the scrubber can or cannot walk, and 0-3 errors), the middlewares record their
// runs and fail on demand; compared: which middlewares ran and in which order, whether data is returned, and the list
// of error messages in order (the execution's, then a failing middleware's).

type cannedExec struct {
	data map[string]interface{}
	err  error
}

func (e *cannedExec) Execute(ctx *gateway.ExecutionContext) (map[string]interface{}, error) {
	return e.data, e.err
}

func MwExecuteCorr(c *Ctx, r *rand.Rand) []Failure {
	if c.Drv == nil {
		return nil
	}
	nErr := r.Intn(4)
	if r.Intn(2) == 0 {
		nErr = 0
	}
	var execErrs []string
	var execErr error
	if nErr > 0 {
		list := graphql.ErrorList{}
		for k := 0; k < nErr; k++ {
			m := fmt.Sprintf("execution error %d", k)
			execErrs = append(execErrs, m)
			if k%2 == 0 {
				list = append(list, &graphql.Error{Message: m})
			} else {
				list = append(list, errors.New(m))
			}
		}
		execErr = list
		if nErr == 1 && r.Intn(2) == 0 {
			execErr = errors.New(execErrs[0]) // not a list
		}
	}
	scrubFails := r.Intn(4) == 0
	data := map[string]interface{}{"allUsers": []interface{}{map[string]interface{}{"id": "u1", "firstName": "x"}}}
	if scrubFails {
		data = map[string]interface{}{"allUsers": nil}
	}
	nMw := r.Intn(4)
	var mws []gateway.Middleware
	var desc []interface{}
	var log []int
	for k := 1; k <= nMw; k++ {
		id, fails := k, r.Intn(4) == 0
		desc = append(desc, map[string]interface{}{"id": id, "fails": fails})
		mws = append(mws, gateway.ResponseMiddleware(func(ctx *gateway.ExecutionContext, response map[string]interface{}) error {
			log = append(log, id)
			if fails {
				return fmt.Errorf("middleware %d failed", id)
			}
			return nil
		}))
	}
	if desc == nil {
		desc = []interface{}{}
	}
	in := map[string]interface{}{"execErrs": execErrs, "scrubFails": scrubFails, "mws": desc}
	if execErrs == nil {
		in["execErrs"] = []string{}
	}
	req := map[string]interface{}{"op": "mw-execute"}
	for k, v := range in {
		req[k] = v
	}
	ans, err := c.Drv.Call(req)
	if err != nil {
		return []Failure{{Channel: "harness", Classifier: "harness-error", What: err.Error(), Input: in}}
	}
	f, err := NewFed(FixedFed(), GenStore(rand.New(rand.NewSource(5)), false), gateway.WithExecutor(&cannedExec{data: data, err: execErr}), gateway.WithMiddlewares(mws...))
	if err != nil {
		return []Failure{{Channel: "harness", Classifier: "harness-error", What: err.Error(), Input: in}}
	}
	f.Plan(`{ __typename }`, 5e9)
	doc, errs := gqlparser.LoadQuery(f.Merged, `{ allUsers { firstName } }`)
	if errs != nil {
		return nil
	}
	plans := gateway.QueryPlanList{{Operation: doc.Operations[0], RootStep: &gateway.QueryPlanStep{}, FragmentDefinitions: doc.Fragments,
		FieldsToScrub: map[string][][]string{"id": {{"allUsers"}}}}}
	var got map[string]interface{}
	var gerr error
	var panicked interface{}
	func() {
		defer func() { panicked = recover() }()
		got, gerr = f.GW.Execute(&gateway.RequestContext{Context: context.Background(), Query: `{ allUsers { firstName } }`}, plans)
	}()
	bad := func(what string, obs interface{}) []Failure {
		return []Failure{{Channel: "L2.execute-tail", Classifier: "unclassified", What: what, Input: in, Expected: ans, Observed: obs}}
	}
	obs := map[string]interface{}{"log": log, "data": got, "error": ErrString(gerr)}
	if panicked != nil {
		return bad(fmt.Sprintf("Gateway.Execute panicked: %v", panicked), obs)
	}
	// the model's log starts with the scrubber (0), which cannot be watched from outside
	var wantLog []int
	for _, x := range ans["log"].([]interface{}) {
		if n := int(numOf(x)); n != 0 {
			wantLog = append(wantLog, n)
		}
	}
	if fmt.Sprint(wantLog) != fmt.Sprint(log) {
		return bad(fmt.Sprintf("response middlewares ran as %v, the model says %v", log, wantLog), obs)
	}
	if (ans["data"] == nil) != (got == nil) {
		return bad(fmt.Sprintf("data returned: %v, the model says: %v", got != nil, ans["data"] != nil), obs)
	}
	var wantErrs []string
	for _, x := range ans["errors"].([]interface{}) {
		wantErrs = append(wantErrs, fmt.Sprint(x))
	}
	var gotErrs []string
	if el, ok := gerr.(graphql.ErrorList); ok {
		for _, e := range el {
			gotErrs = append(gotErrs, e.Error())
		}
	} else if gerr != nil {
		gotErrs = append(gotErrs, gerr.Error())
	}
	// the scrubber's own message is the code's, not the model's
	for k := range wantErrs {
		if wantErrs[k] == "middleware 0 failed" && k < len(gotErrs) {
			wantErrs[k] = gotErrs[k]
		}
	}
	if fmt.Sprint(wantErrs) != fmt.Sprint(gotErrs) {
		return bad(fmt.Sprintf("errors returned are %q, the model says %q", gotErrs, wantErrs), obs)
	}
	return nil
}
