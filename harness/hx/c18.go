package hx

import (
	"context"
	"encoding/json"
	"fmt"
	"math/rand"
	"sort"
	"strings"
	"sync"

	"github.com/nautilus/gateway"
	"github.com/nautilus/graphql"
)

// ---------------------------------------------------------------------------------------------
// C18 — uploaded files land exactly where the multipart map says
//   L2: Variables seen by an Executor installed behind GraphQLHandler vs the Lean model of injectFile
// ---------------------------------------------------------------------------------------------

type c18 struct{}

func (c18) Cases(tier string) int {
	n := map[string]int{"quick": 1500, "search": 4000, "thorough": 20000}[tier]
	if n == 0 {
		n = 1500
	}
	return n
}

func (c18) Rule() string {
	return "multipart requests (single and batch) over a fixed variable tree with nulls at the top level, in lists, in nested objects, in objects inside lists and in nested lists; 1-2 files each mapped to 1-2 paths drawn from valid positions and from a catalogue of invalid ones (non-null leaf, through a scalar, missing key, out of range, negative, non-numeric, signed/padded indexes, empty path, missing `variables`, wrong/absent batch index); the request goes through GraphQLHandler with a capturing Executor; the received variables (files shown as markers) or the rejection must equal the Lean model of injectFile applied to the posted variables; non-trivial = at least one path resolves; distinct = distinct (operations, map); every fourth case a multipart request through the WHOLE gateway to a queryer that nulls the uploads it is handed as the client library does (L0.upload-through: the request's variables still hold the file afterwards), every fourth through a gateway in its default configuration to a service that parses the multipart request the client library sends (L0.upload-net: top-level, list and nested positions)"
}

// CaptureExec records the variables each operation is executed with.
type CaptureExec struct {
	mu   sync.Mutex // the handler executes the operations of a batch concurrently
	Seen []map[string]interface{}
}

func (c *CaptureExec) Execute(ctx *gateway.ExecutionContext) (map[string]interface{}, error) {
	c.mu.Lock()
	defer c.mu.Unlock()
	c.Seen = append(c.Seen, ctx.Variables)
	return map[string]interface{}{"ok": true}, nil
}

// markFiles replaces uploads by {"$file": n} (n from the file name) so that values can be compared
func markFiles(v interface{}) interface{} {
	switch x := v.(type) {
	case graphql.Upload:
		var n int
		fmt.Sscanf(x.FileName, "file-%d.txt", &n)
		return map[string]interface{}{"$file": n}
	case map[string]interface{}:
		out := map[string]interface{}{}
		for k, e := range x {
			out[k] = markFiles(e)
		}
		return out
	case []interface{}:
		out := make([]interface{}, len(x))
		for i, e := range x {
			out[i] = markFiles(e)
		}
		return out
	}
	return v
}

func (c18) Run(c *Ctx, i int) CaseResult {
	r := c.Rand(i + 41000000)
	hc := genUploadCase(r)
	// mostly well-formed operations/map so that the paths are what varies
	res := CaseResult{ID: fmt.Sprintf("gen:%d", i)}
	b, _ := json.Marshal(hc)
	res.Key = string(b)
	if i%4 == 2 {
		if uf := UploadThroughNet(c.Rand(i + 44000000)); len(uf) > 0 {
			res.Nontrivial = true
			res.Fails = uf
			return res
		}
	}
	if i%4 == 0 {
		if uf := UploadThroughGateway(c.Rand(i + 43000000)); len(uf) > 0 {
			res.Nontrivial = true
			res.Fails = uf
			return res
		}
	}
	capx := &CaptureExec{}
	store := GenStore(rand.New(rand.NewSource(5)), false)
	f, err := NewFed(FixedFed(), store, gateway.WithExecutor(capx))
	if err != nil {
		res.Fails = append(res.Fails, Failure{Channel: "harness", Classifier: "harness-error", What: err.Error()})
		return res
	}
	rec, panicked := hc.Serve(f.GW)
	bad := func(channel, what string, exp interface{}) {
		res.Fails = append(res.Fails, Failure{Channel: channel, Classifier: "unclassified", What: what, Input: hc, Expected: exp,
			Observed: map[string]interface{}{"status": rec.Code, "body": truncate(rec.Body.String(), 400), "variables": markFiles(toIface(capx.Seen))}})
	}
	if panicked != nil {
		bad("crash", fmt.Sprintf("the handler panicked: %v", panicked), nil)
		return res
	}
	// what the model says: needs operations and map as JSON; anything else is the handler's parsing (C15)
	var opsJSON interface{}
	if json.Unmarshal([]byte(hc.Form["operations"]), &opsJSON) != nil {
		res.Skipped = "operations-not-json"
		return res
	}
	var m map[string][]string
	if json.Unmarshal([]byte(hc.Form["map"]), &m) != nil {
		res.Skipped = "map-not-decodable"
		return res
	}
	batch := false
	var opList []interface{}
	switch x := opsJSON.(type) {
	case map[string]interface{}:
		opList = []interface{}{x}
	case []interface{}:
		opList, batch = x, true
	default:
		res.Skipped = "operations-not-object-or-list"
		return res
	}
	var vars []interface{}
	nullOps := 0
	for _, o := range opList {
		if o == nil && batch {
			// a null member: nothing to execute and nothing a path can lead into
			nullOps++
			vars = append(vars, map[string]interface{}{"\u0000null-operation": true})
			continue
		}
		om, ok := o.(map[string]interface{})
		if !ok {
			res.Skipped = "operation-not-object"
			return res
		}
		v, has := om["variables"]
		if !has || v == nil {
			v = map[string]interface{}{}
		}
		if _, ok := v.(map[string]interface{}); !ok {
			res.Skipped = "variables-not-object"
			return res
		}
		vars = append(vars, v)
	}
	var files []interface{}
	var names []string
	for k := range m {
		names = append(names, k)
	}
	sort.Strings(names)
	missingFile := false
	for _, k := range names {
		var n int
		if _, err := fmt.Sscanf(k, "%d", &n); err != nil {
			res.Skipped = "file-key-not-numeric"
			return res
		}
		if _, ok := hc.Files[k]; !ok {
			missingFile = true
		}
		files = append(files, map[string]interface{}{"n": n, "paths": m[k]})
	}
	ans, err := c.Drv.Call(map[string]interface{}{"op": "inject", "ops": vars, "batch": batch, "files": files})
	if err != nil {
		res.Fails = append(res.Fails, Failure{Channel: "harness", Classifier: "harness-error", What: err.Error()})
		return res
	}
	feat := map[string]bool{"batch": batch}
	modelOK := ans["ok"] != nil && !missingFile
	res.Nontrivial = ans["ok"] != nil
	if nullOps > 0 {
		// a request with a null member may be refused as a whole (4xx, nothing executed); if it is served, every
		// member that is executed must have got exactly the variables the map gives it in the list as sent
		feat["null-member"] = true
		refused := rec.Code >= 400 && rec.Code <= 499 && len(capx.Seen) == 0
		if !refused {
			if !modelOK {
				bad("L2.inject", fmt.Sprintf("a batch with a null member and an invalid map was served (status %d, %d operations executed)", rec.Code, len(capx.Seen)), "4xx, nothing executed")
			} else {
				want := map[string]int{}
				for _, w := range ans["ok"].([]interface{}) {
					if wm, ok := w.(map[string]interface{}); ok && wm["\u0000null-operation"] != nil {
						continue
					}
					want[Canon(w)]++
				}
				for _, s := range capx.Seen {
					k := Canon(markFiles(nilToEmpty(s)))
					if want[k] == 0 {
						bad("L2.inject", "a batch with a null member was served and an operation was executed with variables that differ from what the map gives it in the list as sent: "+diffHint(k, fmt.Sprint(keysOf(want))), ans["ok"])
						break
					}
					want[k]--
				}
			}
		}
		res.Features = FeatList(feat)
		return res
	}
	if modelOK {
		feat["accepted"] = true
		// every operation must have been executed with exactly the model's variables
		want := ans["ok"].([]interface{})
		if rec.Code != 200 {
			bad("L2.inject", fmt.Sprintf("the map is valid but the request was refused with %d", rec.Code), want)
		} else if len(capx.Seen) != len(want) {
			bad("L2.inject", fmt.Sprintf("%d operations executed, %d expected", len(capx.Seen), len(want)), want)
		} else {
			got := map[string]int{}
			for _, s := range capx.Seen {
				got[Canon(markFiles(nilToEmpty(s)))]++
			}
			for _, w := range want {
				k := Canon(w)
				if got[k] == 0 {
					bad("L2.inject", "an operation was executed with variables that differ from the model's: "+diffHint(k, fmt.Sprint(keysOf(got))), want)
					break
				}
				got[k]--
			}
		}
	} else {
		feat["rejected"] = true
		if rec.Code < 400 || rec.Code > 499 {
			bad("L2.inject", fmt.Sprintf("the map is invalid (model rejects it) but the status is %d", rec.Code), "4xx")
		}
		if len(capx.Seen) != 0 {
			bad("L2.inject", "the map is invalid but operations were executed", "nothing executed")
		}
		if !strings.Contains(rec.Body.String(), "errors") {
			bad("L2.inject", "the rejection carries no errors entry", nil)
		}
	}
	res.Features = FeatList(feat)
	if i%199 == 0 {
		res.Sample = map[string]interface{}{"operations": hc.Form["operations"], "map": hc.Form["map"], "model": ans, "status": rec.Code}
	}
	return res
}

func nilToEmpty(m map[string]interface{}) interface{} {
	if m == nil {
		return map[string]interface{}{}
	}
	return m
}
func toIface(l []map[string]interface{}) []interface{} {
	out := make([]interface{}, len(l))
	for i, x := range l {
		out[i] = x
	}
	return out
}
func keysOf(m map[string]int) []string {
	var ks []string
	for k := range m {
		ks = append(ks, k)
	}
	return ks
}

var _ = context.Background

func init() { Runners["C18"] = c18{} }

var uploadValid = []string{"variables.f", "variables.fs.0", "variables.fs.1", "variables.o.f", "variables.o.l.0.f", "variables.o.l.1.f", "variables.nested.0.0", "variables.nested.1.0", "variables.g"}
var uploadInvalid = []string{"variables.s", "variables.fs", "variables.fs.2", "variables.fs.-1", "variables.fs.x", "variables.missing", "variables", "", "variables.o", "vars.f",
	"variables.f.g", "variables..f", "variables.o.l.2.f", "variables.nested.0", "variables.nested.0.1", "variables.n", "variables.o.l.0"}
var uploadOdd = []string{"variables.fs.9223372036854775808", "variables.fs.18446744073709551615", "variables.fs.99999999999999999999999", "variables.nested.0.18446744073709551615", "variables.fs.+1", "variables.fs.01", "variables.fs.-0", "variables.fs.1_0", "variables.fs. 1", "variables.fs.1e0", "variables.fs.0x1"}

// genUploadCase: mostly valid multipart requests; what varies is the map
func genUploadCase(r *rand.Rand) HTTPCase {
	hc := HTTPCase{Method: "POST", Target: "/graphql"}
	batch := r.Intn(3) == 0
	// every member of a batch carries its own mark ("s"), so that a file put into the wrong member shows
	mk := func(k int) interface{} {
		return map[string]interface{}{"query": `{ me { firstName } }`, "variables": map[string]interface{}{"f": nil, "g": nil, "fs": []interface{}{nil, nil},
			"o": map[string]interface{}{"f": nil, "l": []interface{}{map[string]interface{}{"f": nil}, map[string]interface{}{"f": nil}}}, "s": fmt.Sprintf("x%d", k), "n": 5,
			"nested": []interface{}{[]interface{}{nil}, []interface{}{nil}}}}
	}
	var ops interface{} = mk(0)
	nops := 1
	if batch {
		nops = 1 + r.Intn(3)
		l := make([]interface{}, nops)
		for i := range l {
			l[i] = mk(i)
		}
		if r.Intn(6) == 0 {
			// a JSON null where an operation belongs (the indexes of the map count the list as it was sent)
			at := r.Intn(nops + 1)
			l = append(l[:at], append([]interface{}{nil}, l[at:]...)...)
			nops++
		}
		ops = l
	}
	if r.Intn(15) == 0 { // an operation without variables
		ops = map[string]interface{}{"query": `{ me { firstName } }`}
		batch, nops = false, 1
	}
	ob, _ := json.Marshal(ops)
	m := map[string][]string{}
	nfiles := 1 + r.Intn(3)
	used := map[string]bool{}
	for fi := 0; fi < nfiles; fi++ {
		var ps []string
		for j := 0; j < 1+r.Intn(2); j++ {
			var p string
			switch k := r.Intn(20); {
			case k < 15:
				p = uploadValid[r.Intn(len(uploadValid))]
			case k < 18:
				p = uploadInvalid[r.Intn(len(uploadInvalid))]
			default:
				p = uploadOdd[r.Intn(len(uploadOdd))]
			}
			if batch {
				switch k := r.Intn(12); {
				case k < 10:
					p = fmt.Sprintf("%d.%s", r.Intn(nops), p)
				case k == 10:
					p = fmt.Sprintf("%s.%s", []string{"-1", fmt.Sprint(nops), "9", "9223372036854775808", "18446744073709551615", "18446744073709551616"}[r.Intn(6)], p)
				}
			} else if r.Intn(25) == 0 {
				p = "0." + p
			}
			// the same position twice is itself an invalid map; keep it rare
			if used[p] && r.Intn(4) != 0 {
				continue
			}
			used[p] = true
			ps = append(ps, p)
		}
		if len(ps) == 0 {
			ps = []string{}
		}
		m[fmt.Sprint(fi)] = ps
	}
	mb, _ := json.Marshal(m)
	if r.Intn(8) == 0 {
		// a client that mirrors the operation into the URL (for logs or caches): a POST is a POST, its body counts
		hc.Target = "/graphql?query=%7B+me+%7B+firstName+%7D+%7D&variables=%7B%22f%22%3Anull%7D"
	}
	hc.Form = map[string]string{"operations": string(ob), "map": string(mb)}
	hc.Files = map[string]string{}
	for fi := 0; fi < nfiles; fi++ {
		if r.Intn(25) != 0 {
			hc.Files[fmt.Sprint(fi)] = fmt.Sprintf("content-%d", fi)
		}
	}
	return hc
}
