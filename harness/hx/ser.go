package hx

import (
	"sort"

	"github.com/vektah/gqlparser/v2/ast"
	"github.com/vektah/gqlparser/v2/parser"
)

func serDirs(ds ast.DirectiveList) []interface{} {
	out := []interface{}{}
	for _, d := range ds {
		m := map[string]interface{}{"name": d.Name}
		if a := d.Arguments.ForName("if"); a != nil {
			if a.Value.Kind == ast.Variable {
				m["var"] = a.Value.Raw
			} else {
				m["lit"] = a.Value.Raw == "true"
			}
		}
		out = append(out, m)
	}
	return out
}

// SerSels ships a parsed selection set to the model (the model does not parse GraphQL text).
func SerSels(ss ast.SelectionSet) []interface{} {
	out := []interface{}{}
	for _, s := range ss {
		switch s := s.(type) {
		case *ast.Field:
			args := []interface{}{}
			for _, a := range s.Arguments {
				m := map[string]interface{}{"name": a.Name}
				switch a.Value.Kind {
				case ast.Variable:
					m["var"] = a.Value.Raw
				case ast.StringValue:
					m["str"] = a.Value.Raw
				case ast.BooleanValue:
					m["bool"] = a.Value.Raw == "true"
				}
				args = append(args, m)
			}
			alias := s.Alias
			if alias == "" {
				alias = s.Name
			}
			out = append(out, map[string]interface{}{"kind": "field", "alias": alias, "name": s.Name, "args": args, "dirs": serDirs(s.Directives), "sub": SerSels(s.SelectionSet)})
		case *ast.InlineFragment:
			out = append(out, map[string]interface{}{"kind": "inline", "cond": s.TypeCondition, "dirs": serDirs(s.Directives), "sub": SerSels(s.SelectionSet)})
		case *ast.FragmentSpread:
			out = append(out, map[string]interface{}{"kind": "spread", "name": s.Name, "dirs": serDirs(s.Directives)})
		}
	}
	return out
}

func serData(v interface{}) interface{} {
	switch v := v.(type) {
	case Ref:
		return map[string]interface{}{"$ref": map[string]interface{}{"type": v.Type, "id": v.ID}}
	case []interface{}:
		out := make([]interface{}, len(v))
		for i, x := range v {
			out[i] = serData(x)
		}
		return out
	default:
		return v
	}
}

// SerStore ships the data graph in a deterministic order.
func SerStore(st Store) []interface{} {
	store := []interface{}{}
	var types []string
	for t := range st {
		types = append(types, t)
	}
	sort.Strings(types)
	for _, typ := range types {
		var ids []string
		for id := range st[typ] {
			ids = append(ids, id)
		}
		sort.Strings(ids)
		for _, id := range ids {
			f := map[string]interface{}{}
			for k, v := range st[typ][id] {
				f[k] = serData(v)
			}
			store = append(store, map[string]interface{}{"type": typ, "id": id, "fields": f})
		}
	}
	return store
}

func SerPossible(schema *ast.Schema) map[string][]string {
	possible := map[string][]string{}
	for name, def := range schema.Types {
		if def.Kind == ast.Interface || def.Kind == ast.Union {
			for _, p := range schema.GetPossibleTypes(def) {
				possible[name] = append(possible[name], p.Name)
			}
			sort.Strings(possible[name])
		}
	}
	return possible
}

// MonoCase builds the request for the Lean `mono` oracle.
func MonoCase(schema *ast.Schema, st Store, doc *ast.QueryDocument, op *ast.OperationDefinition, vars map[string]interface{}) map[string]interface{} {
	frags := []interface{}{}
	for _, f := range doc.Fragments {
		frags = append(frags, map[string]interface{}{"name": f.Name, "cond": f.TypeCondition, "sub": SerSels(f.SelectionSet)})
	}
	root := "Query"
	if op.Operation == ast.Mutation {
		root = "Mutation"
	}
	if vars == nil {
		vars = map[string]interface{}{}
	}
	return map[string]interface{}{"op": "mono", "possible": SerPossible(schema), "store": SerStore(st), "frags": frags,
		"sels": SerSels(op.SelectionSet), "vars": vars, "root": root}
}

func parseOnly(q string) (*ast.QueryDocument, error) {
	doc, err := parser.ParseQuery(&ast.Source{Input: q})
	if err != nil {
		return nil, err
	}
	return doc, nil
}
