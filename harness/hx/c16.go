package hx

import (
	"crypto/sha256"
	"encoding/hex"
	"encoding/json"
	"fmt"
	"math/rand"
	"sort"
	"strings"
	"sync"
	"time"

	"github.com/nautilus/gateway"
	"github.com/nautilus/graphql"
)

// ---------------------------------------------------------------------------------------------
// C16 — batched operations keep their order and equal their single-request answers
// ---------------------------------------------------------------------------------------------

type c16 struct{}

func (c16) Cases(tier string) int {
	n := map[string]int{"quick": 150, "search": 500, "thorough": 1500}[tier]
	if n == 0 {
		n = 150
	}
	return n
}

func (c16) Rule() string {
	return "every sixth case a multipart batch of 2-4 members with 1-2 files whose map entries name several members (each member must be executed with the variables it gets alone with its part of the map); batched POSTs of 1-5 operations (multi-step queries, list fan-out, a mutation, an operation that errs at execution, an operation without query, duplicates) named Op0..Opk, half of them against a gateway with the automatic query-plan cache where operations may carry a persisted-query hash next to their text; service calls are gated per operation name and a controller lets the operations complete in a forced order: every permutation for batches of up to 3 (quick) / 4 (thorough) operations, random permutations above; the i-th element of the response list must equal the response of operation i POSTed alone; built with -race; non-trivial = at least 2 operations that contact services; distinct = distinct (batch, completion order)"
}

var batchQueries = []string{
	`{ me { firstName lastName } }`,
	`{ allUsers { firstName lastName nick } }`,
	`{ allPhotos { url likes owner { firstName } } }`,
	`{ me { friends { lastName } } topPhoto { url likes } }`,
	`{ pets { name ... on Cat { toys } } }`,
}

// opGate forces the completion order of operations: calls of an operation wait until it is allowed.
type opGate struct {
	mu      sync.Mutex
	allowed map[string]chan struct{}
	active  map[string]int
	last    map[string]time.Time
}

func newOpGate(names []string) *opGate {
	g := &opGate{allowed: map[string]chan struct{}{}, active: map[string]int{}, last: map[string]time.Time{}}
	for _, n := range names {
		g.allowed[n] = make(chan struct{})
	}
	return g
}

func (g *opGate) enter(name string) {
	g.mu.Lock()
	ch := g.allowed[name]
	g.mu.Unlock()
	if ch != nil {
		<-ch
	}
	g.mu.Lock()
	g.active[name]++
	g.last[name] = time.Now()
	g.mu.Unlock()
}
func (g *opGate) leave(name string) {
	g.mu.Lock()
	g.active[name]--
	g.last[name] = time.Now()
	g.mu.Unlock()
}

// drive opens the operations one after the other; the next one opens when the previous has been quiet for a while
func (g *opGate) drive(order []string, done <-chan struct{}) {
	for _, name := range order {
		g.mu.Lock()
		close(g.allowed[name])
		g.last[name] = time.Now()
		g.mu.Unlock()
		for {
			select {
			case <-done:
				return
			case <-time.After(2 * time.Millisecond):
			}
			g.mu.Lock()
			quiet := g.active[name] == 0 && time.Since(g.last[name]) > 12*time.Millisecond
			g.mu.Unlock()
			if quiet {
				break
			}
		}
	}
}

// multipartBatch: a batch sent as a multipart request, with files whose map entries name several members; every
// member must be executed with the variables it gets when it is sent alone with its own part of the map
func multipartBatch(c *Ctx, i int) CaseResult {
	r := c.Rand(i + 52000000)
	res := CaseResult{ID: fmt.Sprintf("gen:%d", i), Features: []string{"multipart-batch"}}
	k := 2 + r.Intn(3)
	var ops []interface{}
	for j := 0; j < k; j++ {
		ops = append(ops, map[string]interface{}{"query": `{ me { firstName } }`,
			"variables": map[string]interface{}{"f": nil, "g": nil, "h": nil, "s": fmt.Sprintf("member-%d", j)}})
	}
	// every (member, variable) position is used by at most one path
	type pos struct {
		member int
		name   string
	}
	var free []pos
	for j := 0; j < k; j++ {
		for _, n := range []string{"f", "g", "h"} {
			free = append(free, pos{j, n})
		}
	}
	r.Shuffle(len(free), func(a, b int) { free[a], free[b] = free[b], free[a] })
	nfiles := 1 + r.Intn(2)
	fileMap := map[string][]string{}
	soloMaps := make([]map[string][]string, k)
	for j := range soloMaps {
		soloMaps[j] = map[string][]string{}
	}
	for fi := 0; fi < nfiles; fi++ {
		np := 1 + r.Intn(3)
		for ; np > 0 && len(free) > 0; np-- {
			p := free[0]
			free = free[1:]
			key := fmt.Sprint(fi)
			fileMap[key] = append(fileMap[key], fmt.Sprintf("%d.variables.%s", p.member, p.name))
			soloMaps[p.member][key] = append(soloMaps[p.member][key], "variables."+p.name)
		}
	}
	files := map[string]string{}
	for key := range fileMap {
		files[key] = "content-" + key
	}
	ob, _ := json.Marshal(ops)
	mb, _ := json.Marshal(fileMap)
	res.Key = string(ob) + string(mb)
	run := func(form map[string]string, fs map[string]string) (*CaptureExec, int, string) {
		capx := &CaptureExec{}
		f, err := NewFed(FixedFed(), GenStore(rand.New(rand.NewSource(5)), false), gateway.WithExecutor(capx))
		if err != nil {
			return nil, 0, err.Error()
		}
		rec, p := HTTPCase{Method: "POST", Target: "/graphql", Form: form, Files: fs}.Serve(f.GW)
		if p != nil {
			return nil, 0, fmt.Sprint("panic: ", p)
		}
		return capx, rec.Code, ""
	}
	in := map[string]interface{}{"operations": string(ob), "map": string(mb)}
	bx, bcode, berr := run(map[string]string{"operations": string(ob), "map": string(mb)}, files)
	if berr != "" {
		res.Fails = append(res.Fails, Failure{Channel: "harness", Classifier: "harness-error", What: berr, Input: in})
		return res
	}
	inBatch := map[string]string{}
	for _, v := range bx.Seen {
		m, _ := markFiles(nilToEmpty(v)).(map[string]interface{})
		inBatch[fmt.Sprint(m["s"])] = Canon(m)
	}
	for j := 0; j < k; j++ {
		sb, _ := json.Marshal(ops[j])
		smb, _ := json.Marshal(soloMaps[j])
		sfiles := map[string]string{}
		for key := range soloMaps[j] {
			sfiles[key] = files[key]
		}
		sx, scode, serr := run(map[string]string{"operations": string(sb), "map": string(smb)}, sfiles)
		if serr != "" {
			res.Fails = append(res.Fails, Failure{Channel: "harness", Classifier: "harness-error", What: serr, Input: in})
			return res
		}
		alone := "(not executed)"
		if len(sx.Seen) == 1 {
			alone = Canon(markFiles(nilToEmpty(sx.Seen[0])))
		}
		got, ok := inBatch[fmt.Sprintf("member-%d", j)]
		if !ok {
			got = "(not executed)"
		}
		if scode != bcode || alone != got {
			res.Fails = append(res.Fails, Failure{Channel: "L0.batch-multipart", Classifier: "unclassified",
				What:  fmt.Sprintf("member %d of a multipart batch is executed with other variables than when it is sent alone with its part of the map (status %d in the batch, %d alone): %s", j, bcode, scode, diffHint(alone, got)),
				Input: in, Expected: alone, Observed: got})
			return res
		}
	}
	res.Nontrivial = true
	res.Counters = map[string]int{"operations": k, "orders": 1}
	return res
}

func (c16) Run(c *Ctx, i int) CaseResult {
	if i%6 == 5 {
		return multipartBatch(c, i)
	}
	r := c.Rand(i + 51000000)
	k := 1 + r.Intn(5)
	if r.Intn(6) == 0 {
		// a large batch (any bound on the number of operations handled at once must still serve all of them)
		k = 7 + r.Intn(17)
	}
	var ops []map[string]interface{}
	var names []string
	contacting := 0
	persisted := 0
	// half of the batches go to a gateway with the automatic query-plan cache; there an operation may carry a
	// persisted-query hash together with its text (hash-only operations are left out: their answer depends on
	// the cache's history, which a solitary request does not have)
	cached := r.Intn(2) == 0
	// every gateway gets a plan cache of its own (one option value would carry one cache, and a plan found there
	// calls the services of the gateway it was made for)
	gwOpts := func() []gateway.Option {
		if cached {
			return []gateway.Option{gateway.WithAutomaticQueryPlanCache()}
		}
		return nil
	}
	for j := 0; j < k; j++ {
		name := fmt.Sprintf("Op%d", j)
		op := map[string]interface{}{"operationName": name}
		switch kind := r.Intn(12); {
		case kind < 8:
			q := batchQueries[r.Intn(len(batchQueries))]
			op["query"] = "query " + name + " " + q
			contacting++
		case kind == 8:
			op["query"] = "mutation " + name + ` { bump(id: "u1") { firstName lastName } }`
			contacting++
		case kind == 9: // errs at execution: the name selects nothing
			op["query"] = "query Other" + name + " { me { firstName } }"
		case kind == 10: // no query
		default: // duplicate of the first
			if len(ops) > 0 && ops[0]["query"] != nil {
				op["query"] = ops[0]["query"]
				op["operationName"] = ops[0]["operationName"]
				name = ops[0]["operationName"].(string)
			} else {
				op["query"] = "query " + name + " " + batchQueries[0]
			}
			contacting++
		}
		if q, ok := op["query"].(string); ok && cached && r.Intn(2) == 0 {
			sum := sha256.Sum256([]byte(q))
			op["extensions"] = map[string]interface{}{"persistedQuery": map[string]interface{}{"version": 1, "sha256Hash": hex.EncodeToString(sum[:])}}
			persisted++
		}
		ops = append(ops, op)
		names = append(names, name)
	}
	if k >= 2 && r.Intn(3) == 0 {
		// members that are the same document and operation name and differ only in their variables — in ways a careless
		// rendering of the variables does not show (`map[k:u1 s:true]` is both {"k":"u1 s:true"} and {"k":"u1","s":true})
		text := `query Near($k: ID = "u2", $s: Boolean = false) { user(id: $k) { firstName nick @include(if: $s) } allUsers @skip(if: $s) { lastName } }`
		pairs := [][2]map[string]interface{}{
			{{"k": "u1 s:true"}, {"k": "u1", "s": true}},
			{{"k": "u3"}, {"k": "u3", "s": false}},
			{{"k": "u1"}, {"k": "u3"}},
			{{}, {"s": true}},
			{{"k": "u2 s:false"}, {"k": "u2", "s": false}},
			// numbers that a float64 does not hold: whatever the decoder of one shape of request makes of them, the
			// decoder of the other must make too
			{{"k": json.Number("9007199254740993")}, {"k": json.Number("9007199254740992")}},
			{{"k": json.Number("18446744073709551615"), "s": true}, {"k": json.Number("12345678901234567890")}},
		}
		pr := pairs[r.Intn(len(pairs))]
		a, b := 0, 1+r.Intn(k-1)
		if r.Intn(2) == 0 {
			pr[0], pr[1] = pr[1], pr[0]
		}
		ops[a] = map[string]interface{}{"operationName": "Near", "query": text, "variables": pr[0]}
		ops[b] = map[string]interface{}{"operationName": "Near", "query": text, "variables": pr[1]}
		names[a], names[b] = "Near", "Near"
	}
	if cached && r.Intn(3) == 0 {
		// several members that are ONE document (and so one persisted-query hash) and differ in the operation they name
		doc := `query First { me { firstName } } query Second { allUsers { lastName } } query Third { topPhoto { url likes } }`
		sum := sha256.Sum256([]byte(doc))
		for j := 0; j < k; j++ {
			name := []string{"First", "Second", "Third"}[r.Intn(3)]
			ops[j] = map[string]interface{}{"operationName": name, "query": doc,
				"extensions": map[string]interface{}{"persistedQuery": map[string]interface{}{"version": 1, "sha256Hash": hex.EncodeToString(sum[:])}}}
			names[j] = name
		}
	}
	// the completion order
	order := make([]int, k)
	for j := range order {
		order[j] = j
	}
	limit := 3
	if c.Tier != "quick" {
		limit = 4
	}
	var orders [][]int
	if k <= limit {
		orders = perms(k)
	} else {
		for t := 0; t < 6; t++ {
			o := append([]int{}, order...)
			r.Shuffle(k, func(a, b int) { o[a], o[b] = o[b], o[a] })
			orders = append(orders, o)
		}
	}
	body, _ := json.Marshal(ops)
	res := CaseResult{ID: fmt.Sprintf("gen:%d", i), Key: string(body)}
	store := GenStore(rand.New(rand.NewSource(5)), false)
	// single answers
	singles := make([]string, k)
	aloneVars := map[string][]string{} // operation name -> what the services were sent for it (query, variables)
	for j, op := range ops {
		f, err := NewFed(FixedFed(), store, gwOpts()...)
		if err != nil {
			res.Fails = append(res.Fails, Failure{Channel: "harness", Classifier: "harness-error", What: err.Error()})
			return res
		}
		b, _ := json.Marshal(op)
		rec, p := HTTPCase{Method: "POST", Target: "/graphql", ContentType: "application/json", Body: string(b)}.Serve(f.GW)
		if p != nil {
			res.Fails = append(res.Fails, Failure{Channel: "crash", Classifier: "unclassified", What: fmt.Sprint(p), Input: op})
			return res
		}
		var v interface{}
		json.Unmarshal(rec.Body.Bytes(), &v)
		singles[j] = Canon(v)
		for _, svc := range f.Services {
			for _, call := range svc.Calls() {
				aloneVars[names[j]] = append(aloneVars[names[j]], outboundKey(call))
			}
		}
	}
	for _, ord := range orders {
		f, err := NewFed(FixedFed(), store, gwOpts()...)
		if err != nil {
			res.Fails = append(res.Fails, Failure{Channel: "harness", Classifier: "harness-error", What: err.Error()})
			return res
		}
		uniq := map[string]bool{}
		var gateNames []string
		for _, n := range names {
			if !uniq[n] {
				uniq[n] = true
				gateNames = append(gateNames, n)
			}
		}
		g := newOpGate(gateNames)
		for _, svc := range f.Services {
			svc.Gate = func(sv *Service, n int, in *graphql.QueryInput) { g.enter(in.OperationName) }
			svc.Done = nil
		}
		for _, svc := range f.Services {
			sv := svc
			inner := sv.Gate
			sv.Gate = func(s *Service, n int, in *graphql.QueryInput) { inner(s, n, in) }
		}
		// leave() is called when the call returns
		for _, svc := range f.Services {
			sv := svc
			sv.DoneIn = func(in *graphql.QueryInput) { g.leave(in.OperationName) }
		}
		var ordNames []string
		seen := map[string]bool{}
		for _, j := range ord {
			if !seen[names[j]] {
				seen[names[j]] = true
				ordNames = append(ordNames, names[j])
			}
		}
		done := make(chan struct{})
		go g.drive(ordNames, done)
		rec, p := HTTPCase{Method: "POST", Target: "/graphql", ContentType: "application/json", Body: string(body)}.Serve(f.GW)
		close(done)
		if p != nil {
			res.Fails = append(res.Fails, Failure{Channel: "crash", Classifier: "unclassified", What: fmt.Sprint(p), Input: map[string]interface{}{"batch": ops, "order": ord}})
			return res
		}
		var list []interface{}
		if err := json.Unmarshal(rec.Body.Bytes(), &list); err != nil || len(list) != k {
			res.Fails = append(res.Fails, Failure{Channel: "L0.batch", Classifier: "unclassified", What: fmt.Sprintf("a batch of %d operations is not answered with a list of %d responses (status %d)", k, k, rec.Code),
				Input: map[string]interface{}{"batch": ops, "order": ord}, Observed: truncate(rec.Body.String(), 500)})
			return res
		}
		batchVars := map[string][]string{}
		for _, svc := range f.Services {
			for _, call := range svc.Calls() {
				batchVars[call.OpName] = append(batchVars[call.OpName], outboundKey(call))
			}
		}
		for n, want := range aloneVars {
			got := batchVars[n]
			sort.Strings(want)
			sort.Strings(got)
			if fmt.Sprint(want) != fmt.Sprint(got) {
				res.Fails = append(res.Fails, Failure{Channel: "L0.batch-outbound", Classifier: "unclassified",
					What:  fmt.Sprintf("what the services are sent for operation %q inside the batch differs from what they are sent when it comes alone: %s", n, diffHint(fmt.Sprint(want), fmt.Sprint(got))),
					Input: map[string]interface{}{"batch": ops, "order": ord}, Expected: want, Observed: map[string]interface{}{"got": got, "names": fmt.Sprint(keysOfSS(batchVars))}})
				return res
			}
		}
		for j := range list {
			if Canon(list[j]) != singles[j] {
				res.Fails = append(res.Fails, Failure{Channel: "L0.batch", Classifier: "unclassified",
					What:  fmt.Sprintf("element %d of the batch response differs from the response operation %d gets alone (completion order %v)", j, j, ord),
					Input: map[string]interface{}{"batch": ops, "order": ord}, Expected: singles[j], Observed: list[j]})
				return res
			}
		}
	}
	res.Nontrivial = contacting >= 2
	res.Counters = map[string]int{"operations": k, "orders": len(orders)}
	res.Features = []string{fmt.Sprintf("batch-%d", k)}
	if cached {
		res.Features = append(res.Features, "plan-cache", fmt.Sprintf("persisted-%d", persisted))
	}
	if i%17 == 0 {
		res.Sample = map[string]interface{}{"batch": ops, "orders": orders}
	}
	return res
}

func keysOfSS(m map[string][]string) []string {
	var out []string
	for k, v := range m {
		out = append(out, fmt.Sprintf("%q:%d", k, len(v)))
	}
	sort.Strings(out)
	return out
}

// outboundKey: what one service call carried (its text and, canonically, its variables)
func outboundKey(call *Call) string {
	q := call.Query
	// the order in which a step's operation lists its variable definitions is not fixed (and means nothing)
	if nl := strings.Index(q, "\n"); nl > 0 {
		head := q[:nl]
		if a, b := strings.Index(head, "("), strings.LastIndex(head, ")"); a >= 0 && b > a {
			defs := strings.Split(head[a+1:b], ", $")
			for i := range defs {
				defs[i] = strings.TrimPrefix(defs[i], "$")
			}
			sort.Strings(defs)
			q = head[:a+1] + "$" + strings.Join(defs, ", $") + head[b:] + q[nl:]
		}
	}
	return q + " | " + Canon(call.Variables)
}

func init() { Runners["C16"] = c16{} }
