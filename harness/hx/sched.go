package hx

import (
	"fmt"
	"math/rand"
	"strings"
	"sync"
	"time"

	"github.com/nautilus/gateway"
	"github.com/nautilus/graphql"
)

// Sched is a schedule controller: goroutines park at gate points (service calls, the executor's
// "Pushing Result" log site) and are released one at a time in an order chosen by a policy.
type Sched struct {
	mu      sync.Mutex
	waiting []*token
	policy  string
	r       *rand.Rand
	Trace   []string
	stop    chan struct{}
	wg      sync.WaitGroup
}

type token struct {
	kind, label string
	ch          chan struct{}
}

func NewSched(policy string, seed int64) *Sched {
	return &Sched{policy: policy, r: rand.New(rand.NewSource(seed)), stop: make(chan struct{})}
}

// Park blocks the calling goroutine until the controller releases it.
func (s *Sched) Park(kind, label string) {
	t := &token{kind: kind, label: label, ch: make(chan struct{})}
	s.mu.Lock()
	select {
	case <-s.stop:
		s.mu.Unlock()
		return
	default:
	}
	s.waiting = append(s.waiting, t)
	s.mu.Unlock()
	<-t.ch
}

func (s *Sched) pick() int {
	n := len(s.waiting)
	switch s.policy {
	case "fifo":
		return 0
	case "lifo":
		return n - 1
	case "deep-first", "shallow-first":
		best := 0
		for i, t := range s.waiting {
			li, lb := len(t.label), len(s.waiting[best].label)
			if (s.policy == "deep-first" && li > lb) || (s.policy == "shallow-first" && li < lb) {
				best = i
			}
		}
		return best
	case "spawn-last":
		// a goroutine about to start a dependent step waits while anything else can run
		var idx []int
		for i, t := range s.waiting {
			if t.kind != "spawn" {
				idx = append(idx, i)
			}
		}
		if len(idx) > 0 {
			return idx[s.r.Intn(len(idx))]
		}
		return s.r.Intn(n)
	case "starve-collector":
		// the collector only gets to run when nothing else can: the result channel stays full
		var idx, spawns []int
		for i, t := range s.waiting {
			switch t.kind {
			case "collect":
			case "spawn":
				spawns = append(spawns, i)
			default:
				idx = append(idx, i)
			}
		}
		if len(idx) > 0 {
			return idx[s.r.Intn(len(idx))]
		}
		// nothing but spawners and the collector: let the collector free ONE slot first half of the time,
		// so that a child of a parked spawner can overtake its parent if the code allows it
		if len(spawns) > 0 && s.r.Intn(2) == 0 {
			return spawns[s.r.Intn(len(spawns))]
		}
		return s.r.Intn(n)
	case "calls-first", "push-first":
		want := "call"
		if s.policy == "push-first" {
			want = "push"
		}
		var idx []int
		for i, t := range s.waiting {
			if t.kind == want {
				idx = append(idx, i)
			}
		}
		if len(idx) > 0 {
			return idx[s.r.Intn(len(idx))]
		}
		return s.r.Intn(n)
	}
	return s.r.Intn(n)
}

// Start runs the controller loop: whenever the set of parked goroutines has been stable for two ticks,
// one of them is released.
func (s *Sched) Start() {
	s.wg.Add(1)
	go func() {
		defer s.wg.Done()
		last, stable := -1, 0
		for {
			select {
			case <-s.stop:
				return
			case <-time.After(300 * time.Microsecond):
			}
			s.mu.Lock()
			n := len(s.waiting)
			if n == 0 {
				last, stable = -1, 0
				s.mu.Unlock()
				continue
			}
			if n == last {
				stable++
			} else {
				last, stable = n, 0
			}
			if stable >= 2 {
				i := s.pick()
				t := s.waiting[i]
				s.waiting = append(s.waiting[:i], s.waiting[i+1:]...)
				s.Trace = append(s.Trace, t.kind+" "+t.label)
				close(t.ch)
				last, stable = -1, 0
			}
			s.mu.Unlock()
		}
	}()
}

// Stop releases everything still parked and ends the loop.
func (s *Sched) Stop() {
	s.mu.Lock()
	close(s.stop)
	for _, t := range s.waiting {
		close(t.ch)
	}
	s.waiting = nil
	s.mu.Unlock()
	s.wg.Wait()
}

// SchedLogger parks the executor's goroutines at the "Pushing Result" log site. It looks only at the leading
// string and at the insertion point ([]string), never at result maps.
type SchedLogger struct {
	S             *Sched
	GateCollector bool
	Rec           *TraceRec // when set, the executor's events are recorded for the L1.trace correspondence
}

func (l SchedLogger) Debug(args ...interface{}) {
	l.Rec.Observe(args)
	if len(args) >= 2 {
		if s, ok := args[0].(string); ok && strings.HasPrefix(s, "Pushing Result") {
			label := ""
			if ip, ok := args[1].([]string); ok {
				label = strings.Join(ip, "/")
			}
			l.S.Park("push", label)
		} else if ok && l.GateCollector && strings.HasPrefix(s, "Inserting result into") {
			// the collector has just received a result and is about to merge it
			label := ""
			if ip, ok := args[1].([]string); ok {
				label = strings.Join(ip, "/")
			}
			l.S.Park("collect", label)
		}
	}
}
// Info: the executor logs "Spawn <insertion point>" before starting each dependent step
func (l SchedLogger) Info(args ...interface{}) {
	l.Rec.Observe(args)
	if len(args) >= 2 {
		if s, ok := args[0].(string); ok && strings.HasPrefix(s, "Spawn") {
			label := ""
			if ip, ok := args[1].([]string); ok {
				label = strings.Join(ip, "/")
			}
			l.S.Park("spawn", label)
		}
	}
}
func (l SchedLogger) Warn(args ...interface{})                               {}
func (l SchedLogger) WithFields(fields gateway.LoggerFields) gateway.Logger { return l }
func (l SchedLogger) QueryPlanStep(step *gateway.QueryPlanStep)              {}

// InstallSched gates every service call of the federation through the controller.
func InstallSched(f *Fed, s *Sched) {
	for _, svc := range f.Services {
		prev := svc.Gate
		svc.Gate = func(sv *Service, n int, in *graphql.QueryInput) {
			if prev != nil {
				prev(sv, n, in)
			}
			s.Park("call", fmt.Sprintf("%s:%v", sv.URL, in.Variables["id"]))
		}
	}
}
