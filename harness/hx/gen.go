package hx

// Generators: federations (a monolith schema partitioned over services), data graphs, type-directed queries.
// Every random choice comes from the *rand.Rand handed in, which is derived from (VERIF_SEED, case index).

import (
	"fmt"
	"math/rand"
	"sort"
	"strings"

	"github.com/vektah/gqlparser/v2"
	"github.com/vektah/gqlparser/v2/ast"
)

// MonoSDL is the schema of the reference monolith: one server owning everything.
const MonoSDL = `
interface Node { id: ID! }
interface Animal { id: ID! name: String }
type Query { allUsers: [User!]!  user(id: ID!): User  node(id: ID!): Node  me: User pets: [Animal] allPhotos: [Photo] topPhoto: Photo }
type Mutation { bump(id: ID!): User  touch(id: ID!): Photo }
type User implements Node { id: ID! firstName: String! friends: [User] pet: Animal lastName: String  photos: [Photo!]!  favorite: Photo nick: String }
type Photo implements Node { id: ID! url: String owner: User likes: Int likedBy: [User] }
type Cat implements Node & Animal { id: ID! name: String lives: Int toys: [String] }
type Dog implements Node & Animal { id: ID! name: String barks: Boolean owner: User }
`

type fieldSpec struct{ name, typ, args string }
type typeSpec struct {
	name   string
	ifaces []string
	fields []fieldSpec
}

var monoTypes = []typeSpec{
	{"Query", nil, []fieldSpec{{"allUsers", "[User!]!", ""}, {"user", "User", "(id: ID!)"}, {"me", "User", ""}, {"pets", "[Animal]", ""}, {"allPhotos", "[Photo]", ""}, {"topPhoto", "Photo", ""}}},
	{"Mutation", nil, []fieldSpec{{"bump", "User", "(id: ID!)"}, {"touch", "Photo", "(id: ID!)"}}},
	{"User", []string{"Node"}, []fieldSpec{{"firstName", "String!", ""}, {"friends", "[User]", ""}, {"pet", "Animal", ""}, {"lastName", "String", ""}, {"photos", "[Photo!]!", ""}, {"favorite", "Photo", ""}, {"nick", "String", ""}}},
	{"Photo", []string{"Node"}, []fieldSpec{{"url", "String", ""}, {"owner", "User", ""}, {"likes", "Int", ""}, {"likedBy", "[User]", ""}}},
	{"Cat", []string{"Node", "Animal"}, []fieldSpec{{"name", "String", ""}, {"lives", "Int", ""}, {"toys", "[String]", ""}}},
	{"Dog", []string{"Node", "Animal"}, []fieldSpec{{"name", "String", ""}, {"barks", "Boolean", ""}, {"owner", "User", ""}}},
}

// FedSpec describes one federation: service SDLs in registration order and optional location priorities.
type FedSpec struct {
	SDLs       map[string]string `json:"sdls"`
	Order      []string          `json:"order"`
	Priorities []string          `json:"priorities,omitempty"`
	// PrioritiesFirst: hand WithLocationPriorities to gateway.New before WithPlanner (the order in which a gateway is
	// given its options is the caller's business and must not matter)
	PrioritiesFirst bool `json:"priorities_option_first,omitempty"`
	// Owners[type.field] = services declaring it (bookkeeping for oracles)
	Owners map[string][]string `json:"owners"`
	// Parsed, when set, holds already parsed service schemas to hand to gateway.New instead of parsing the SDL again
	// (several gateways built in one process from the same schema objects)
	Parsed map[string]*ast.Schema `json:"-"`
}

func baseName(t string) string { return strings.Trim(t, "[]!") }

// GenFed partitions the monolith over k services following the gateway's conventions: every object type
// a service mentions carries `id`, implements Node (and Animal for Cat/Dog, with `name`), and the service
// exposes node(id). Fields are homed at one service, sometimes two.
func GenFed(r *rand.Rand, k int, multiHomePct int) FedSpec {
	names := []string{"A", "B", "C", "D"}[:k]
	owners := map[string][]string{}
	pick := func() []string {
		a := names[r.Intn(k)]
		if k > 1 && r.Intn(100) < multiHomePct {
			b := names[r.Intn(k)]
			if b != a {
				out := []string{a, b}
				sort.Strings(out)
				return out
			}
		}
		return []string{a}
	}
	for _, t := range monoTypes {
		for _, f := range t.fields {
			if (t.name == "Cat" || t.name == "Dog") && f.name == "name" {
				continue // placed below: wherever the type is served
			}
			if t.name == "Query" || t.name == "Mutation" {
				owners[t.name+"."+f.name] = []string{names[r.Intn(k)]}
				continue
			}
			owners[t.name+"."+f.name] = pick()
		}
	}
	return buildFed(names, owners)
}

// buildFed renders service SDLs from an ownership table and closes it under the conventions.
func buildFed(names []string, owners map[string][]string) FedSpec {
	has := func(l []string, s string) bool {
		for _, x := range l {
			if x == s {
				return true
			}
		}
		return false
	}
	// which services mention which object types (as field owner or as a field's result type)
	serves := map[string]map[string]bool{}
	for _, n := range names {
		serves[n] = map[string]bool{}
	}
	changed := true
	for changed {
		changed = false
		for _, t := range monoTypes {
			for _, f := range t.fields {
				for _, s := range owners[t.name+"."+f.name] {
					mark := func(tn string) {
						if tn == "Animal" {
							for _, c := range []string{"Cat", "Dog"} {
								if !serves[s][c] {
									serves[s][c] = true
									changed = true
								}
							}
							return
						}
						for _, mt := range monoTypes {
							if mt.name == tn && !serves[s][tn] {
								serves[s][tn] = true
								changed = true
							}
						}
					}
					if t.name != "Query" && t.name != "Mutation" {
						mark(t.name)
					}
					mark(baseName(f.typ))
				}
			}
		}
	}
	for _, n := range names {
		for _, c := range []string{"Cat", "Dog"} {
			if serves[n][c] {
				if !has(owners[c+".name"], n) {
					owners[c+".name"] = append(owners[c+".name"], n)
				}
				// the convention: an abstract type crossed at a boundary exists with its implementers
				for _, c2 := range []string{"Cat", "Dog"} {
					serves[n][c2] = true
					if !has(owners[c2+".name"], n) {
						owners[c2+".name"] = append(owners[c2+".name"], n)
					}
				}
			}
		}
	}
	fs := FedSpec{SDLs: map[string]string{}, Order: names, Owners: map[string][]string{}}
	for k, v := range owners {
		sort.Strings(v)
		fs.Owners[k] = v
	}
	for _, n := range names {
		var sb strings.Builder
		sb.WriteString("interface Node { id: ID! }\n")
		if serves[n]["Cat"] || serves[n]["Dog"] {
			sb.WriteString("interface Animal { id: ID! name: String }\n")
		}
		for _, t := range monoTypes {
			var lines []string
			for _, f := range t.fields {
				if has(owners[t.name+"."+f.name], n) {
					lines = append(lines, fmt.Sprintf("  %s%s: %s", f.name, f.args, f.typ))
				}
			}
			switch t.name {
			case "Query":
				lines = append(lines, "  node(id: ID!): Node")
				sb.WriteString("type Query {\n" + strings.Join(lines, "\n") + "\n}\n")
			case "Mutation":
				if len(lines) > 0 {
					sb.WriteString("type Mutation {\n" + strings.Join(lines, "\n") + "\n}\n")
				}
			default:
				if !serves[n][t.name] {
					continue
				}
				fs.Owners[t.name+".id"] = append(fs.Owners[t.name+".id"], n)
				sb.WriteString(fmt.Sprintf("type %s implements %s {\n  id: ID!\n%s\n}\n", t.name, strings.Join(t.ifaces, " & "), strings.Join(lines, "\n")))
			}
		}
		fs.SDLs[n] = sb.String()
	}
	return fs
}

// FixedFed is the three-service federation used by the corpus (DESIGN §8).
func FixedFed() FedSpec {
	owners := map[string][]string{
		"Query.allUsers": {"A"}, "Query.user": {"A"}, "Query.me": {"A"}, "Query.pets": {"A"}, "Query.allPhotos": {"B"}, "Query.topPhoto": {"B"},
		"Mutation.bump": {"A"}, "Mutation.touch": {"B"},
		"User.firstName": {"A"}, "User.friends": {"A"}, "User.pet": {"A"}, "User.lastName": {"B", "C"}, "User.photos": {"B"}, "User.favorite": {"B"}, "User.nick": {"C"},
		"Photo.url": {"B"}, "Photo.owner": {"B"}, "Photo.likes": {"C"}, "Photo.likedBy": {"C"},
		"Cat.lives": {"A"}, "Cat.toys": {"C"}, "Dog.barks": {"B"}, "Dog.owner": {"B"},
	}
	return buildFed([]string{"A", "B", "C"}, owners)
}

// SingleFed: one service owning everything (a gateway in front of a single service still joins: through its own
// `node` field and the query fields it is given)
func SingleFed() FedSpec {
	owners := map[string][]string{}
	for k := range FixedFed().Owners {
		owners[k] = []string{"A"}
	}
	return buildFed([]string{"A"}, owners)
}

// FixedFed2 co-locates allPhotos and Photo.likedBy (two nested lists in one step) and joins User fields from
// other services beneath them; allPhotos contains a null element.
func FixedFed2() FedSpec {
	owners := map[string][]string{
		"Query.allUsers": {"A"}, "Query.user": {"A"}, "Query.me": {"A"}, "Query.pets": {"A"}, "Query.allPhotos": {"B"}, "Query.topPhoto": {"B"},
		"Mutation.bump": {"A"}, "Mutation.touch": {"B"},
		"User.firstName": {"A"}, "User.friends": {"A"}, "User.pet": {"A"}, "User.lastName": {"C"}, "User.photos": {"A"}, "User.favorite": {"B"}, "User.nick": {"C"},
		"Photo.url": {"B"}, "Photo.owner": {"B"}, "Photo.likes": {"C"}, "Photo.likedBy": {"B"},
		"Cat.lives": {"A"}, "Cat.toys": {"C"}, "Dog.barks": {"B"}, "Dog.owner": {"B"},
	}
	return buildFed([]string{"A", "B", "C"}, owners)
}

// FixedFed3 is FixedFed with the remote fields of Cat and of Dog at one and the same other service (C), so that
// selections under different type conditions of one abstract field are candidates for one dependent step.
func FixedFed3() FedSpec {
	owners := map[string][]string{
		"Query.allUsers": {"A"}, "Query.user": {"A"}, "Query.me": {"A"}, "Query.pets": {"A"}, "Query.allPhotos": {"B"}, "Query.topPhoto": {"B"},
		"Mutation.bump": {"A"}, "Mutation.touch": {"B"},
		"User.firstName": {"A"}, "User.friends": {"A"}, "User.pet": {"A"}, "User.lastName": {"B", "C"}, "User.photos": {"B"}, "User.favorite": {"B"}, "User.nick": {"C"},
		"Photo.url": {"B"}, "Photo.owner": {"B"}, "Photo.likes": {"C"}, "Photo.likedBy": {"C"},
		"Cat.lives": {"A"}, "Cat.toys": {"C"}, "Dog.barks": {"C"}, "Dog.owner": {"B"},
	}
	return buildFed([]string{"A", "B", "C"}, owners)
}

// FixedFed4 homes User.photos at two services, so that one fragment selecting it splits differently depending on
// the service that is asked (the root asks A, a step at B keeps it at B).
func FixedFed4() FedSpec {
	owners := map[string][]string{
		"Query.allUsers": {"A"}, "Query.user": {"A"}, "Query.me": {"A"}, "Query.pets": {"A"}, "Query.allPhotos": {"B"}, "Query.topPhoto": {"B"},
		"Mutation.bump": {"A"}, "Mutation.touch": {"B"},
		"User.firstName": {"C"}, "User.friends": {"B"}, "User.pet": {"A"}, "User.lastName": {"B"}, "User.photos": {"A", "B"}, "User.favorite": {"B"}, "User.nick": {"C"},
		"Photo.url": {"C"}, "Photo.owner": {"B"}, "Photo.likes": {"A"}, "Photo.likedBy": {"C"},
		"Cat.lives": {"A"}, "Cat.toys": {"C"}, "Dog.barks": {"B"}, "Dog.owner": {"B"},
	}
	return buildFed([]string{"A", "B", "C"}, owners)
}

// GenStore builds a data graph with nulls, empty lists, shared and cyclic references.
func GenStore(r *rand.Rand, oddIDs bool) Store {
	u := func(id string) Ref { return Ref{"User", id} }
	p := func(id string) Ref { return Ref{"Photo", id} }
	uid := []string{"u1", "u2", "u3"}
	pid := []string{"p1", "p2"}
	if oddIDs {
		uid = []string{"u:1", "u 2", "ü3"}
		pid = []string{"p#1", "p:2#x"}
	}
	st := Store{
		"Query": {"": {"allUsers": []interface{}{u(uid[0]), u(uid[1]), u(uid[2])}, "me": u(uid[0]), "allPhotos": []interface{}{p(pid[0]), nil, p(pid[1])}, "user": u(uid[1]), "topPhoto": p(pid[0])}},
		"Mutation": {"": {"bump": u(uid[0]), "touch": p(pid[1])}},
		"User": {
			uid[0]: {"firstName": "Ann", "lastName": "A", "nick": "an", "friends": []interface{}{u(uid[1]), u(uid[2])}, "photos": []interface{}{p(pid[0]), p(pid[1])}, "favorite": p(pid[0])},
			uid[1]: {"firstName": "Bob", "lastName": "B", "nick": nil, "friends": []interface{}{u(uid[0])}, "photos": []interface{}{}, "favorite": nil},
			uid[2]: {"firstName": "Cy", "lastName": nil, "nick": "c", "friends": nil, "photos": []interface{}{p(pid[1])}, "favorite": p(pid[1])},
		},
		"Photo": {
			pid[0]: {"url": "http://1", "owner": u(uid[0]), "likes": 3, "likedBy": []interface{}{u(uid[1]), u(uid[2])}},
			pid[1]: {"url": "http://2", "owner": u(uid[2]), "likes": 0, "likedBy": []interface{}{}},
		},
		"Cat": {
			"c1": {"name": "Tom", "lives": 9, "toys": []interface{}{"ball", "mouse"}},
			"c2": {"name": nil, "lives": 1, "toys": nil},
		},
		"Dog": {
			"d1": {"name": "Rex", "barks": true, "owner": u(uid[0])},
			"d2": {"name": "Fido", "barks": false, "owner": nil},
		},
	}
	pets := []interface{}{Ref{"Cat", "c1"}, Ref{"Dog", "d1"}, nil, Ref{"Dog", "d2"}, Ref{"Cat", "c2"}}
	r.Shuffle(len(pets), func(i, j int) { pets[i], pets[j] = pets[j], pets[i] })
	st["Query"][""]["pets"] = pets[:r.Intn(len(pets)+1)]
	st["User"][uid[0]]["pet"] = Ref{"Cat", "c1"}
	st["User"][uid[1]]["pet"] = Ref{"Dog", "d1"}
	st["User"][uid[2]]["pet"] = nil
	if r.Intn(3) == 0 { // a longer list with repeats
		var l []interface{}
		for i := 0; i < 3+r.Intn(12); i++ {
			l = append(l, u(uid[r.Intn(3)]))
		}
		st["Query"][""]["allUsers"] = l
	}
	if r.Intn(4) == 0 {
		st["Query"][""]["allPhotos"] = []interface{}{}
	}
	if r.Intn(4) == 0 {
		st["Query"][""]["me"] = nil
	}
	return st
}

// QFeat switches constructs of the query generator on and off.
type QFeat struct {
	Inline, Untyped, Named, Directives, CompositeDirectives, AliasShadow, Typename, NodeRoot, CondID, RepeatKeys, ArgVars, IDHeavy bool
	Depth                                                                                                   int
}

// QGen is a type-directed query generator over the monolith schema.
type QGen struct {
	R      *rand.Rand
	Schema *ast.Schema
	F      QFeat
	frags  []string
	nfrag  int
	// fragConds: (name, type condition) of the fragments defined so far
	fragConds [][2]string
	Vars   map[string]interface{}
	vdefs  []string
	Feats  map[string]bool
}

func (g *QGen) feat(s string) { g.Feats[s] = true }

func (g *QGen) boolVar() string {
	name := fmt.Sprintf("v%d", len(g.vdefs))
	g.vdefs = append(g.vdefs, "$"+name+": Boolean!")
	g.Vars[name] = g.R.Intn(2) == 0
	return "$" + name
}

func (g *QGen) directive(composite bool) string {
	if !g.F.Directives || (composite && !g.F.CompositeDirectives) || g.R.Intn(6) != 0 {
		return ""
	}
	d := []string{"@skip", "@include"}[g.R.Intn(2)]
	g.feat("directive")
	if composite {
		g.feat("directive-composite")
	}
	one := func(name string) string {
		if g.R.Intn(2) == 0 {
			return fmt.Sprintf(" %s(if: %v)", name, g.R.Intn(2) == 0)
		}
		g.feat("directive-var")
		return fmt.Sprintf(" %s(if: %s)", name, g.boolVar())
	}
	out := one(d)
	if g.R.Intn(3) == 0 {
		// both conditions on one selection (each may appear once): it is included only if both let it in
		other := "@skip"
		if d == "@skip" {
			other = "@include"
		}
		out += one(other)
		g.feat("directive-pair")
	}
	return out
}

// level tracks, for one object position of the response, which field each response key denotes, so that
// selections merged by fragments and repeated keys stay mergeable (OverlappingFieldsCanBeMerged)
type level struct {
	used map[string]string
	sub  map[string]*level
}

func newLevel() *level { return &level{used: map[string]string{}, sub: map[string]*level{}} }

func (g *QGen) sel(typeName string, depth int, lvl *level) string {
	def := g.Schema.Types[typeName]
	var parts []string
	n := 1 + g.R.Intn(4)
	used := lvl.used
	for i := 0; i < n; i++ {
		k := g.R.Intn(10)
		if !g.F.Named && k >= 8 {
			k = 0
		}
		if !g.F.Inline && k >= 6 && k < 8 {
			k = 0
		}
		switch {
		case k < 6 || depth <= 0:
			var fields []*ast.FieldDefinition
			for _, f := range def.Fields {
				if strings.HasPrefix(f.Name, "__") {
					continue
				}
				if len(f.Arguments) > 0 && !(typeName == "Query" && (f.Name == "user" || (f.Name == "node" && g.F.NodeRoot))) {
					continue
				}
				fields = append(fields, f)
			}
			if len(fields) == 0 {
				continue
			}
			f := fields[g.R.Intn(len(fields))]
			key := f.Name
			if g.F.AliasShadow && g.R.Intn(5) == 0 {
				key = []string{"a", "b", "x1", f.Name + "2", "name", "lastName"}[g.R.Intn(6)]
				g.feat("alias")
			}
			if key == "id" && f.Name != "id" {
				continue
			}
			if prev, ok := used[key]; ok && (prev != f.Name || len(f.Arguments) > 0) {
				continue
			}
			ft := f.Type
			for ft.Elem != nil {
				ft = ft.Elem
			}
			tdef := g.Schema.Types[ft.NamedType]
			s := f.Name
			argText := ""
			if len(f.Arguments) > 0 {
				ids := []string{"u1", "u2", "p1", "c1", "d2", "zzz"}
				if g.F.ArgVars && g.R.Intn(2) == 0 {
					name := fmt.Sprintf("a%d", len(g.vdefs))
					g.vdefs = append(g.vdefs, "$"+name+": ID!")
					g.Vars[name] = ids[g.R.Intn(len(ids)-1)]
					argText = fmt.Sprintf("(id: $%s)", name)
					g.feat("arg-var")
				} else {
					argText = fmt.Sprintf("(id: %q)", ids[g.R.Intn(len(ids))])
				}
				s += argText
				g.feat("args")
			}
			if key != f.Name {
				s = key + ": " + s
			}
			if tdef.Kind == ast.Object || tdef.Kind == ast.Interface || tdef.Kind == ast.Union {
				if depth <= 0 {
					continue
				}
				if _, ok := used[key]; ok && !g.F.RepeatKeys {
					continue
				}
				if lvl.sub[key] == nil {
					lvl.sub[key] = newLevel()
				}
				s += g.directive(true) + " { " + g.sel(tdef.Name, depth-1, lvl.sub[key]) + " }"
				if argText != "" && g.R.Intn(4) == 0 {
					// the same field with the same arguments a second time under a key of its own, with a selection of
					// its own: two places of the response that describe one object
					twin := fmt.Sprintf("tw%d", len(parts))
					if _, taken := used[twin]; !taken {
						used[twin] = f.Name
						lvl.sub[twin] = newLevel()
						s += " " + twin + ": " + f.Name + argText + " { " + g.sel(tdef.Name, depth-1, lvl.sub[twin]) + " }"
						g.feat("same-args-twice")
					}
				}
			} else if f.Name != "id" || g.F.CondID {
				s += g.directive(false)
			}
			used[key] = f.Name
			parts = append(parts, s)
		case k < 8:
			cond := typeName
			poss := g.Schema.GetPossibleTypes(def)
			if len(poss) > 0 && g.R.Intn(2) == 0 {
				cond = poss[g.R.Intn(len(poss))].Name
			}
			inner := g.sel(cond, depth-1, lvl)
			fd := g.directive(true)
			g.feat("inline")
			if g.F.Untyped && g.R.Intn(4) == 0 && cond == typeName {
				g.feat("inline-untyped")
				parts = append(parts, "..."+fd+" { "+inner+" }")
			} else {
				parts = append(parts, "... on "+cond+fd+" { "+inner+" }")
			}
		default:
			cond := typeName
			if poss := g.Schema.GetPossibleTypes(def); len(poss) > 0 && g.R.Intn(2) == 0 {
				// a named fragment on a narrower type than the one it is spread under
				cond = poss[g.R.Intn(len(poss))].Name
				if cond != typeName {
					g.feat("named-narrowing")
				}
			}
			if g.R.Intn(3) == 0 {
				// spread a fragment that is already defined (on this type or on one of its possible types) once more:
				// a document's fragments are shared by its spreads, its operations and every plan made of it
				var fit []string
				for _, fr := range g.fragConds {
					if fr[1] == typeName || fr[1] == cond {
						fit = append(fit, fr[0])
					}
				}
				if len(fit) > 0 {
					g.feat("named-respread")
					parts = append(parts, "..."+fit[g.R.Intn(len(fit))]+g.directive(true))
					continue
				}
			}
			name := fmt.Sprintf("F%d", g.nfrag)
			g.nfrag++
			inner := g.sel(cond, depth-1, lvl)
			g.frags = append(g.frags, fmt.Sprintf("fragment %s on %s { %s }", name, cond, inner))
			g.fragConds = append(g.fragConds, [2]string{name, cond})
			g.feat("named")
			parts = append(parts, "..."+name+g.directive(true))
		}
	}
	if g.F.IDHeavy && def.Fields.ForName("id") != nil && g.R.Intn(3) == 0 {
		if _, ok := used["id"]; !ok && g.R.Intn(2) == 0 {
			used["id"] = "id"
			parts = append(parts, "id")
		} else if _, ok := used["x9"]; !ok {
			used["x9"] = "id"
			parts = append(parts, "x9: id")
		}
	}
	if len(parts) == 0 {
		if (g.F.Typename && g.R.Intn(2) == 0) || def.Fields.ForName("id") == nil {
			return "__typename"
		}
		return "id"
	}
	if g.F.Typename && g.R.Intn(8) == 0 {
		g.feat("typename")
		parts = append(parts, "__typename")
	}
	return strings.Join(parts, " ")
}

// Query generates one query document (single anonymous or named operation).
func (g *QGen) Query(opName string) string {
	g.Vars = map[string]interface{}{}
	g.Feats = map[string]bool{}
	g.frags, g.vdefs, g.nfrag, g.fragConds = nil, nil, 0, nil
	d := g.F.Depth
	if d == 0 {
		d = 3
	}
	body := g.sel("Query", d+g.R.Intn(2), newLevel())
	rest := " { " + body + " } " + strings.Join(g.frags, " ")
	// declare only the variables that survived into the text
	var defs []string
	for _, vd := range g.vdefs {
		name := vd[:strings.Index(vd, ":")]
		if strings.Contains(rest, name+")") || strings.Contains(rest, name+" ") {
			defs = append(defs, vd)
		} else {
			delete(g.Vars, name[1:])
		}
	}
	q := "query"
	if opName != "" {
		q += " " + opName
	}
	if len(defs) > 0 {
		q += "(" + strings.Join(defs, ", ") + ")"
	}
	return q + rest
}

var monoSchema *ast.Schema

// MonoSchema parses MonoSDL once.
func MonoSchema() *ast.Schema {
	if monoSchema == nil {
		s, err := gqlparser.LoadSchema(&ast.Source{Input: MonoSDL})
		if err != nil {
			panic(err)
		}
		monoSchema = s
	}
	return monoSchema
}

// HasConditionalID reports whether some selection with response key "id" sits under a directive or under a
// fragment whose type condition is narrower than the enclosing type (classifier of known finding D11).
func HasConditionalID(doc *ast.QueryDocument, ss ast.SelectionSet, parentType string, cond bool) bool {
	for _, sel := range ss {
		switch sel := sel.(type) {
		case *ast.Field:
			key := sel.Alias
			if key == "" {
				key = sel.Name
			}
			if key == "id" && (cond || len(sel.Directives) > 0) {
				return true
			}
			if len(sel.SelectionSet) > 0 && sel.Definition != nil {
				t := sel.Definition.Type
				for t.Elem != nil {
					t = t.Elem
				}
				// a composite field reached under a condition may be merged with an unconditional occurrence of
				// the same response key, so its sub-selections stay conditional
				if HasConditionalID(doc, sel.SelectionSet, t.NamedType, cond || len(sel.Directives) > 0) {
					return true
				}
			}
		case *ast.InlineFragment:
			c := cond || len(sel.Directives) > 0 || (sel.TypeCondition != "" && sel.TypeCondition != parentType)
			pt := parentType
			if sel.TypeCondition != "" {
				pt = sel.TypeCondition
			}
			if HasConditionalID(doc, sel.SelectionSet, pt, c) {
				return true
			}
		case *ast.FragmentSpread:
			def := doc.Fragments.ForName(sel.Name)
			if def == nil {
				continue
			}
			c := cond || len(sel.Directives) > 0 || def.TypeCondition != parentType
			if HasConditionalID(doc, def.SelectionSet, def.TypeCondition, c) {
				return true
			}
		}
	}
	return false
}
