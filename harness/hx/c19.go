package hx

import (
	"context"
	"errors"
	"fmt"
	"math/rand"
	"net/http"
	"sync"
	"time"

	"github.com/nautilus/gateway"
	"github.com/nautilus/graphql"
)

// ---------------------------------------------------------------------------------------------
// C19 — middlewares run exactly once, in order, on success and on failure
// ---------------------------------------------------------------------------------------------

type c19 struct{}

func (c19) Cases(tier string) int {
	n := map[string]int{"quick": 400, "search": 1200, "thorough": 4000}[tier]
	if n == 0 {
		n = 400
	}
	return n
}

func (c19) Rule() string {
	return "L2.execute-tail: 4 generated (executor result, scrubber outcome, middleware list) cases per case through the real Gateway.Execute (canned executor, recording middlewares) and Mw.execute: which middlewares ran, whether data is returned, the error messages in order; L2.new-options: 3 random lists of 1-8 options per case (planners, priority lists, queryer factories, middleware lists, others; all recording what they are handed) through gateway.New and one request, against the Lean model Nw.build (installed planner, what it was told, response and request middleware order); then 0-4 recording response middlewares (each adds a key to the response; optionally one of them fails) interleaved at registration with 0-3 recording request middlewares, handed to gateway.New in one WithMiddlewares option or cut into two or three, x fault patterns {none, a failing dependent call, a failing root call} x queries with joins (so that injected ids exist), a fifth of the cases over a single service with a query through the gateway's own node field; services are wrapped in a queryer implementing QueryerWithMiddlewares that applies the middlewares it is handed to a request object before every call; checked: the response-middleware log is the registration-order prefix up to and including the first failing one, on success and on executor failure alike; every response middleware sees a response already free of injected ids (key sets equal the monolith's); the data returned carries every key the middlewares added; a middleware error aborts the request: no data, and the error returned is the middleware's (after the execution's own errors when it had reported any); every outbound call had every request middleware applied exactly once, in order; non-trivial = at least 1 response middleware and 2 service calls; distinct = distinct configuration; a third of the gateways cache their plans and the observed request is the second use of its plan; every third case a net-twin case with 0-3 request middlewares on real *http.Request values (every request that arrives carries every middleware's mark once, in order)"
}

// mwQueryer wraps a Service and implements graphql.QueryerWithMiddlewares.
type mwQueryer struct {
	svc *Service
	mws []graphql.NetworkMiddleware
	log *mwLog
}

type mwLog struct {
	mu      sync.Mutex
	PerCall [][]string // for every outbound call: the request middlewares applied (in order)
	Resp    []string   // response middlewares that ran (in order)
	Seen    []string   // canonical response each response middleware saw
}

func (q *mwQueryer) Query(ctx context.Context, in *graphql.QueryInput, recv interface{}) error {
	req, _ := http.NewRequest("POST", "http://"+q.svc.URL, nil)
	for _, mw := range q.mws {
		if err := mw(req); err != nil {
			return err
		}
	}
	applied := req.Header.Values("X-Mw")
	q.log.mu.Lock()
	q.log.PerCall = append(q.log.PerCall, append([]string{}, applied...))
	q.log.mu.Unlock()
	return q.svc.Query(ctx, in, recv)
}

func (q *mwQueryer) WithMiddlewares(mws []graphql.NetworkMiddleware) graphql.Queryer {
	return &mwQueryer{svc: q.svc, mws: mws, log: q.log}
}

func (c19) Run(c *Ctx, i int) CaseResult {
	r := c.Rand(i + 61000000)
	nResp := r.Intn(5)
	nReq := r.Intn(4)
	failAt := -1
	if nResp > 0 && r.Intn(3) == 0 {
		failAt = r.Intn(nResp)
	}
	query := []string{`{ me { firstName lastName } }`, `{ allUsers { firstName lastName nick } }`, `{ me { friends { lastName } } }`, `{ me { id firstName lastName } }`,
		// several joins in one request, through single objects and through lists, in either order
		`{ me { lastName } allUsers { lastName } }`, `{ allUsers { nick } me { nick photos { likes } } }`,
		`{ topPhoto { likes owner { nick } } me { lastName favorite { likes } } allUsers { lastName } }`,
		`{ me { friends { nick } lastName } user(id: "u2") { lastName photos { likes } } }`,
		// the client asks for id under another response key at a join (the plain id the planner adds is not the client's)
		`{ me { uid: id lastName } }`, `{ allUsers { uid: id nick } me { key: id lastName } }`}[r.Intn(10)]
	fault := []string{"none", "none", "dependent", "root"}[r.Intn(4)]
	single := r.Intn(5) == 0
	if single {
		// one service behind the gateway, and a query through the gateway's own node field (a join all the same)
		query = []string{`{ node(id: "u1") { ... on User { firstName lastName } } }`, `{ a: node(id: "u2") { ... on User { nick friends { lastName } } } me { firstName } }`}[r.Intn(2)]
		if fault == "dependent" {
			fault = "none"
		}
	}
	res := CaseResult{ID: fmt.Sprintf("gen:%d", i), Key: fmt.Sprint(nResp, nReq, failAt, query, fault, i%7)}
	// L2: the tail of Gateway.Execute (scrubber, response middlewares, which errors are returned) against Mw.execute
	for k := 0; k < 4; k++ {
		if mf := MwExecuteCorr(c, c.Rand(i*10+k+65000000)); len(mf) > 0 {
			res.Nontrivial = true
			res.Fails = mf
			return res
		}
	}
	// L2: how New takes its options (which planner, what it is told, the middleware lists) against Nw.build
	for k := 0; k < 3; k++ {
		if nf := NewOptsCorr(c, c.Rand(i*10+k+63000000)); len(nf) > 0 {
			res.Nontrivial = true
			res.Fails = nf
			return res
		}
	}
	if i%3 == 0 {
		// request middlewares on real *http.Request values: a gateway in its default configuration (the client library's
		// network queryers over an in-process transport), every request that arrives carries every middleware's mark
		tc := NetTwinCase{Query: c05Queries[r.Intn(len(c05Queries))], StoreSeed: 5, ListLen: []int{0, 3, 12}[r.Intn(3)], ReqMws: r.Intn(4), Cached: r.Intn(2) == 0, Repeat: 1 + r.Intn(2)}
		if nf := RunNetTwin(tc); len(nf) > 0 {
			res.Nontrivial = true
			res.Fails = nf
			return res
		}
	}
	log := &mwLog{}
	// registration order interleaves both kinds (the split must keep each kind's order)
	var mws []gateway.Middleware
	var respOrder, reqOrder []string
	ri, qi := 0, 0
	for ri < nResp || qi < nReq {
		if ri < nResp && (qi >= nReq || r.Intn(2) == 0) {
			k := ri
			name := fmt.Sprintf("resp%d", k)
			respOrder = append(respOrder, name)
			mws = append(mws, gateway.ResponseMiddleware(func(ctx *gateway.ExecutionContext, response map[string]interface{}) error {
				log.mu.Lock()
				log.Resp = append(log.Resp, name)
				log.Seen = append(log.Seen, Canon(response))
				log.mu.Unlock()
				if k == failAt {
					return errors.New("middleware " + name + " failed")
				}
				if response != nil {
					response["added_"+name] = true
				}
				return nil
			}))
			ri++
		} else {
			name := fmt.Sprintf("req%d", qi)
			reqOrder = append(reqOrder, name)
			mws = append(mws, gateway.RequestMiddleware(func(req *http.Request) error {
				req.Header.Add("X-Mw", name)
				return nil
			}))
			qi++
		}
	}
	store := GenStore(rand.New(rand.NewSource(5)), false)
	spec := FixedFed()
	if single {
		spec = SingleFed()
	}
	fq := map[string]*mwQueryer{}
	var fed *Fed
	factory := gateway.QueryerFactory(func(ctx *gateway.PlanningContext, url string) graphql.Queryer {
		if q, ok := fq[url]; ok {
			return q
		}
		if s, ok := fed.ByURL[url]; ok {
			fq[url] = &mwQueryer{svc: s, log: log}
			return fq[url]
		}
		return nil
	})
	var err error
	// the list is handed over in one WithMiddlewares option or cut into several (the option adds)
	mwOpts := []gateway.Option{}
	if cuts := r.Intn(3); cuts == 0 || len(mws) < 2 {
		mwOpts = append(mwOpts, gateway.WithMiddlewares(mws...))
	} else {
		at := 1 + r.Intn(len(mws)-1)
		mwOpts = append(mwOpts, gateway.WithMiddlewares(mws[:at]...))
		rest := mws[at:]
		if cuts == 2 && len(rest) >= 2 {
			at2 := 1 + r.Intn(len(rest)-1)
			mwOpts = append(mwOpts, gateway.WithMiddlewares(rest[:at2]...), gateway.WithMiddlewares(rest[at2:]...))
		} else {
			mwOpts = append(mwOpts, gateway.WithMiddlewares(rest...))
		}
	}
	res.Features = append(res.Features, fmt.Sprintf("middleware-options-%d", len(mwOpts)))
	// a third of the gateways cache their plans, and the request observed is the SECOND use of its plan (what a cache
	// hit hands out is scrubbed and passed through the middlewares like a plan just computed)
	cachedPlans := r.Intn(3) == 0
	if cachedPlans {
		mwOpts = append(mwOpts, gateway.WithAutomaticQueryPlanCache())
	}
	res.Features = append(res.Features, fmt.Sprintf("cached-plan:%v", cachedPlans))
	fed, err = NewFed(spec, store, append(mwOpts, gateway.WithQueryerFactory(&factory))...)
	if err != nil {
		res.Fails = append(res.Fails, Failure{Channel: "harness", Classifier: "harness-error", What: err.Error()})
		return res
	}
	warmCalls := 0
	if cachedPlans {
		fed.CacheKey = shaHex(query) // requests without a key are never answered from the cache
		runWith(fed, FedInput{Spec: spec, StoreSeed: 5, Query: query}, 8*time.Second)
		warmCalls = fed.TotalCalls()
		log.mu.Lock()
		log.PerCall, log.Resp, log.Seen = nil, nil, nil
		log.mu.Unlock()
	}
	var fl *FaultLog
	switch fault {
	case "dependent":
		from := func(url string) int {
			if s, ok := fed.ByURL[url]; ok {
				return len(s.Calls())
			}
			return 0
		}
		fl = InstallFaults(fed, []FaultSpec{{Service: "B", From: from("B"), Count: 1, Kind: "transport"}, {Service: "C", From: from("C"), Count: 1, Kind: "transport"}}, 0)
	case "root":
		fl = InstallFaults(fed, []FaultSpec{{Service: "A", MatchID: "root", Kind: "transport"}}, 0)
	}
	in := FedInput{Spec: spec, StoreSeed: 5, Query: query}
	out := runWith(fed, in, 8*time.Second)
	cfg := map[string]interface{}{"response_middlewares": respOrder, "request_middlewares": reqOrder, "failing": failAt, "query": query, "fault": fault, "second_use_of_a_cached_plan": cachedPlans}
	bad := func(channel, what string, exp, obs interface{}) {
		res.Fails = append(res.Fails, Failure{Channel: channel, Classifier: "unclassified", What: what, Input: cfg, Expected: exp, Observed: obs})
	}
	if out.Hung || out.Panicked != nil {
		bad("crash", fmt.Sprintf("hung=%v panic=%v", out.Hung, out.Panicked), nil, nil)
		return res
	}
	// expected log: registration order up to and including the failing one
	want := respOrder
	if failAt >= 0 {
		want = respOrder[:failAt+1]
	}
	if fmt.Sprint(log.Resp) != fmt.Sprint(want) {
		bad("L0.mw-log", "response middlewares did not run exactly once each in registration order (up to the first failure)", want, log.Resp)
	}
	// the scrubber ran before the first user middleware: what it saw has no injected id
	if len(log.Seen) > 0 && fault == "none" {
		fcRef, err := RunFed(&Ctx{Seed: c.Seed, Drv: c.Drv}, in, 8*time.Second)
		if err == nil && fcRef.Invalid == "" {
			if log.Seen[0] != Canon(fcRef.Want) {
				bad("L0.mw-scrub-first", "the first response middleware saw a response that differs from the monolith's (join ids not yet removed?)", fcRef.Want, log.Seen[0])
			}
		}
	}
	if failAt >= 0 {
		// the request is aborted with the middleware's error: it is THE error when the execution reported none, and the
		// last of the list after the execution's own errors otherwise (those are failures that occurred, C07: a
		// middleware does not hide them)
		wantMsg := "middleware resp" + fmt.Sprint(failAt) + " failed"
		msgs := errMultiset(out.Err)
		holds := false
		for _, m := range msgs {
			if m == wantMsg {
				holds = true
			}
		}
		injectedBefore := 0
		if fl != nil {
			_, injectedBefore, _ = fl.Snapshot()
		}
		if out.Err == nil || !holds || (injectedBefore == 0 && out.Err.Error() != wantMsg) {
			bad("L0.mw-error", "a failing middleware must abort the request with its error", wantMsg, ErrString(out.Err))
		}
		if injectedBefore > 0 && len(msgs) < 2 {
			bad("L0.mw-error", "a middleware failed after the execution had reported errors: those must stay in the list", "the execution's errors and "+wantMsg, ErrString(out.Err))
		}
		if out.Data != nil {
			bad("L0.mw-error", "data was returned although a middleware failed", nil, out.Data)
		}
	} else {
		if fault == "none" && out.Err != nil {
			bad("L0.mw-error", "no fault and no failing middleware but an error is returned", nil, ErrString(out.Err))
		}
		injected := 0
		if fl != nil {
			injected, _, _ = fl.Snapshot()
		}
		if injected > 0 && out.Err == nil {
			bad("L0.mw-error", "the executor's error was lost", "an error", nil)
		}
		if out.Data != nil {
			for _, name := range respOrder {
				if out.Data["added_"+name] != true {
					bad("L0.mw-data", "the data returned is not the data the middlewares left (missing key added by "+name+")", nil, out.Data)
				}
			}
		} else if fault == "none" {
			bad("L0.mw-data", "no data returned", nil, nil)
		}
	}
	// request middlewares on every outbound call
	calls := fed.TotalCalls() - warmCalls
	if len(log.PerCall) != calls {
		bad("L0.request-mw", fmt.Sprintf("%d outbound calls, %d went through the middleware-aware queryer", calls, len(log.PerCall)), nil, nil)
	}
	for _, applied := range log.PerCall {
		if fmt.Sprint(applied) != fmt.Sprint(reqOrder) && !(len(applied) == 0 && len(reqOrder) == 0) {
			bad("L0.request-mw", "an outbound call did not have every request middleware applied exactly once in order", reqOrder, applied)
			break
		}
	}
	res.Nontrivial = nResp > 0 && calls >= 2
	res.Counters = map[string]int{"outbound_calls": calls, "response_middlewares": nResp, "request_middlewares": nReq}
	res.Features = append(res.Features, "fault:"+fault, fmt.Sprintf("failing:%v", failAt >= 0), fmt.Sprintf("single-service:%v", single))
	if i%37 == 0 {
		res.Sample = map[string]interface{}{"config": cfg, "log": log.Resp, "per_call": log.PerCall, "error": ErrString(out.Err)}
	}
	return res
}

func init() { Runners["C19"] = c19{} }
