package hx

import (
	"encoding/json"
	"os"
	"strings"
)

// KnownFinding mirrors an entry of /verif/KNOWN_FINDINGS.json (hand-edited, never written at run time).
type KnownFinding struct {
	ID         string   `json:"id"`
	Property   string   `json:"property"`
	Also       []string `json:"also"`
	Status     string   `json:"status"` // finding | fixed
	Classifier string   `json:"classifier"`
	What       string   `json:"what"`
}

var knownRegions = map[string]bool{}

// LoadKnownFindings records the classifier regions of open findings: the general generator stream
// excludes them (each region is exercised through its canonical replay in the corpus instead).
func LoadKnownFindings(path string) {
	if path == "" {
		return
	}
	b, err := os.ReadFile(path)
	if err != nil {
		return
	}
	var doc struct {
		Findings []KnownFinding `json:"findings"`
	}
	if json.Unmarshal(b, &doc) != nil {
		return
	}
	for _, f := range doc.Findings {
		if f.Status == "finding" && f.Classifier != "" {
			knownRegions[f.Classifier] = true
		}
	}
}

// InKnownRegion reports the first class of the input that is an open known-finding region.
func InKnownRegion(classes []string) string {
	for _, c := range classes {
		if knownRegions[c] {
			return c
		}
	}
	return ""
}

// ClassifyCrash maps a Go crash dump to a small enum.
func ClassifyCrash(stderr string) string {
	switch {
	case strings.Contains(stderr, "send on closed channel"):
		return "crash:send-on-closed-channel"
	case strings.Contains(stderr, "index out of range"):
		return "crash:index-out-of-range"
	case strings.Contains(stderr, "nil pointer dereference"):
		return "crash:nil-dereference"
	case strings.Contains(stderr, "negative WaitGroup counter"):
		return "crash:negative-waitgroup"
	case strings.Contains(stderr, "DATA RACE") && strings.Contains(stderr, "SingleRequestQueryer).WithMiddlewares") && !raceOutsideLibraryQueryer(stderr):
		// the client library's WithMiddlewares stores the middlewares in the queryer it is called on (KF-D37)
		return "crash:data-race:library-queryer-middlewares"
	case strings.Contains(stderr, "DATA RACE"):
		return "crash:data-race"
	case strings.Contains(stderr, "all goroutines are asleep"):
		return "crash:deadlock"
	case strings.Contains(stderr, "concurrent map"):
		return "crash:concurrent-map"
	case strings.Contains(stderr, "interface conversion"):
		return "crash:type-assertion"
	}
	return "crash:other"
}

// raceOutsideLibraryQueryer: does a race report name, as the racing access itself (the first frame after "Read at",
// "Write at", "Previous read at", "Previous write at"), anything but the client library's network queryer?
func raceOutsideLibraryQueryer(stderr string) bool {
	lines := strings.Split(stderr, "\n")
	for i, l := range lines {
		t := strings.TrimSpace(l)
		if strings.HasPrefix(t, "Read at ") || strings.HasPrefix(t, "Write at ") || strings.HasPrefix(t, "Previous read at ") || strings.HasPrefix(t, "Previous write at ") {
			if i+1 < len(lines) {
				fr := strings.TrimSpace(lines[i+1])
				if !strings.Contains(fr, "graphql.(*SingleRequestQueryer).WithMiddlewares") && !strings.Contains(fr, "graphql.(*NetworkQueryer).sendRequest") {
					return true
				}
			}
		}
	}
	return false
}
