package hx

import (
	"context"
	"fmt"
	"github.com/nautilus/gateway"
	"github.com/nautilus/graphql"
	"sort"
	"strings"
	"time"

	"github.com/vektah/gqlparser/v2"
	"github.com/vektah/gqlparser/v2/ast"
)

// ---------------------------------------------------------------------------------------------
// C03 / C09 / C10 — merging: conservative union, incompatibilities rejected, order independent
//   L1: outcome and canonical dump of gateway.New's merged schema vs the Lean merge model, in every order
// ---------------------------------------------------------------------------------------------

const internalSDL = "interface Node { id: ID! }\ntype Query { node(id: ID!): Node }\n"

type mergeRunner struct{ prop string }

func (m mergeRunner) Cases(tier string) int {
	n := map[string]int{"quick": 260, "search": 1200, "thorough": 2600}[tier]
	if n == 0 {
		n = 260
	}
	return len(mergeCorpus) + n
}

func (m mergeRunner) Rule() string {
	return "lists of 2-4 services drawn from one table of definitions of every kind (object field subsets, differing interface sets and descriptions: compatible by construction), a third of the cases with query fields of the gateway's own (WithQueryFields: the same names with differing types and arguments from case to case, so that gateways built one after the other in one process differ in them); each third case with one single-point difference from a catalogue of 43 (kind, field type / nullability / list depth, argument set / type / scalar, list and object defaults, enum values, union members, interface and input fields, directive executable locations and arguments, applied directives incl. repeatable multisets; plus compatible variations) applied to one service; for every order of the services (all permutations up to 4 services, each twice; then once more with two of the services registered under one URL): gateway.New outcome in {ok, error, panic} and, when ok, the canonical dump of the merged schema captured through WithPlanner (kinds, fields with full signatures, interfaces, possible types, implements, directive definitions) are compared with the Lean merge model and with each other; the printed merged schema must load again; the routing table must equal the Lean routing model; non-trivial = at least one name defined by two services; distinct = distinct service list; every other case also from schemas REBUILT FROM INTROSPECTION (each service's schema obtained with graphql.IntrospectAPI from a gateway over its SDL: no source positions, no applied directives), in an order and its reverse, the model asked about exactly those schema objects; containment compares field and argument types as written"
}

var mergeCorpus = []MergeCase{
	// a name declared once as an interface and once as another kind (each kind by exactly one service)
	{SDLs: []string{"interface Thing { a: String }\ntype Query { x: Thing }", "type Thing { a: String }\ntype Query { y: Thing }"}, Mutation: "interface-vs-object-two-services"},
	{SDLs: []string{"type Query { y: Thing }\nscalar Thing", "interface Thing { a: String }\ntype Impl implements Thing { a: String }\ntype Query { x: Thing }"}, Mutation: "scalar-vs-interface-two-services"},
	{SDLs: []string{"type Node { id: ID! }\ntype Query { n: Node }"}, Mutation: "object-named-Node-vs-the-gateways-interface"},
	{SDLs: []string{"union Thing = A | B\ntype A { a: String }\ntype B { b: String }\ntype Query { t: Thing }", "interface Thing { a: String }\ntype Query { u: Thing }", "type Query { z: String }"}, Mutation: "union-vs-interface-among-three-services"},
	{SDLs: []string{"type Query { a: String }\nenum E { A B }", "type Query { b: String }\nenum E { A C }"}, Mutation: "D18-enum-different-values"},
	{SDLs: []string{"interface I { a: String }\ntype Query { x: I }", "interface I { b: String }\ntype Query { y: I }"}, Mutation: "D18-interface-different-fields"},
	{SDLs: []string{"type X { a: String }\ntype Query { x: X }", "scalar X\ntype Query { y: X }"}, Mutation: "D19-object-vs-scalar"},
	{SDLs: []string{"input X { a: String }\ntype Query { x(i: X): String }", "type X { a: String }\ntype Query { y: X }"}, Mutation: "D19-input-vs-object"},
	{SDLs: []string{"interface Node { id: ID! }\ntype User implements Node { id: ID! a: String }\ntype Query { node(id: ID!): Node u: User }", "interface Node { id: ID! }\ntype User { id: ID! b: String }\ntype Query { node(id: ID!): Node v: User }"}, Mutation: "ok:D20-possible-types-order"},
	{SDLs: []string{"type Query { f(a: [Int] = [1, 2]): String }", "type Query { f(a: [Int] = [3]): String }"}, Mutation: "D22-list-default"},
	{SDLs: []string{"input O { a: Int }\ntype Query { f(o: O = {a: 1}): String }", "input O { a: Int }\ntype Query { f(o: O = {a: 2}): String }"}, Mutation: "D22-object-default"},
	{SDLs: []string{"enum State { NEW USED }\ntype Query { a: State }", "enum State { NEW USED @deprecated(reason: \"x\") }\ntype Query { b: State }"}, Mutation: "D62-rejected-enum-merge-corrupts-its-input"},
	{SDLs: []string{"enum Color { RED }\ntype Query { c: Color }", "enum Color { \"described by d\" RED }\ntype Query { d: Color }"}, Mutation: "ok:D62-enum-merge-rewrites-its-input"},
	{SDLs: []string{"directive @r(n: Int) repeatable on OBJECT\ntype X @r(n: 1) @r(n: 1) { a: String }\ntype Query { x: X }", "directive @r(n: Int) repeatable on OBJECT\ndirective @s on OBJECT\ntype X @r(n: 1) @s { a: String }\ntype Query { y: X }"}, Mutation: "D38-applied-directives-one-sided"},
}

func perms(n int) [][]int {
	if n == 1 {
		return [][]int{{0}}
	}
	var out [][]int
	for _, p := range perms(n - 1) {
		for i := 0; i <= len(p); i++ {
			q := append(append(append([]int{}, p[:i]...), n-1), p[i:]...)
			out = append(out, q)
		}
	}
	return out
}

type mergeOutcome struct {
	Kind  string // ok | error | panic
	Err   string
	Canon string
	Fed   *Fed
}

func buildOrder(sdls []string, order []int, parsed ...*ast.Schema) mergeOutcome {
	return buildOrderWith(sdls, order, nil, parsed...)
}

func buildOrderWith(sdls []string, order []int, gwFields []GwField, parsed ...*ast.Schema) mergeOutcome {
	spec := FedSpec{SDLs: map[string]string{}, Parsed: map[string]*ast.Schema{}}
	for _, k := range order {
		url := fmt.Sprintf("S%d", k)
		spec.SDLs[url] = sdls[k]
		spec.Order = append(spec.Order, url)
		if k < len(parsed) {
			spec.Parsed[url] = parsed[k]
		}
	}
	var opts []gateway.Option
	if len(gwFields) > 0 {
		var qfs []*gateway.QueryField
		for _, g := range gwFields {
			qfs = append(qfs, &gateway.QueryField{Name: g.Name, Type: g.astType(), Arguments: g.astArgs(),
				Resolver: func(ctx context.Context, args map[string]interface{}) (string, error) { return "x", nil }})
		}
		opts = append(opts, gateway.WithQueryFields(qfs...))
	}
	f, err := NewFed(spec, Store{}, opts...)
	if err != nil {
		if strings.HasPrefix(err.Error(), "PANIC") {
			return mergeOutcome{Kind: "panic", Err: err.Error()}
		}
		return mergeOutcome{Kind: "error", Err: err.Error()}
	}
	f.Plan(`{ __typename }`, 5*time.Second)
	if f.Merged == nil {
		return mergeOutcome{Kind: "error", Err: "merged schema could not be captured"}
	}
	return mergeOutcome{Kind: "ok", Canon: Canon(CanonMerged(f.Merged)), Fed: f}
}

func (m mergeRunner) Run(c *Ctx, i int) CaseResult {
	var mc MergeCase
	id := ""
	sigStats := map[string]int{}
	if m.prop == "C09" || m.prop == "C10" || m.prop == "C03" {
		// L2: merge.go's comparisons of two declarations of one field against Ms.typesEqual / Ms.argDefsEq (8 pairs per case)
		for k := 0; k < 8; k++ {
			sf, feat := MergeSigCorr(c, c.Rand(i*100+k+61000000))
			if len(sf) > 0 {
				return CaseResult{ID: fmt.Sprintf("gen:%d", i), Nontrivial: true, Fails: sf}
			}
			if feat != "" {
				sigStats[feat]++
			}
		}
		// L2: merge.go's merging of directive locations against Ml.mergeLocs (3 pairs per case)
		for k := 0; k < 3; k++ {
			lf, feat := MergeLocsCorr(c, c.Rand(i*100+k+63000000))
			if len(lf) > 0 {
				return CaseResult{ID: fmt.Sprintf("gen:%d", i), Nontrivial: true, Fails: lf}
			}
			if feat != "" {
				sigStats[feat]++
			}
		}
		// L2: merge.go's comparison of applied directive lists against Md.listsEqual (4 pairs per case)
		for k := 0; k < 4; k++ {
			df, feat := MergeDirsCorr(c, c.Rand(i*100+k+62000000))
			if len(df) > 0 {
				return CaseResult{ID: fmt.Sprintf("gen:%d", i), Nontrivial: true, Fails: df}
			}
			if feat != "" {
				sigStats[feat]++
			}
		}
	}
	if i < len(mergeCorpus) {
		mc = mergeCorpus[i]
		id = "corpus:" + mc.Mutation
	} else {
		r := c.Rand(i + map[string]int{"C03": 21000000, "C09": 22000000, "C10": 23000000}[m.prop])
		tbl := mergeTable()
		if r.Intn(3) == 0 {
			// interface inheritance (legal SDL): every service writes `interface Named implements Node`
			for ti := range tbl {
				if tbl[ti].Name == "Named" {
					tbl[ti].Ifaces = []string{"Node"}
				}
			}
		}
		k := 2 + r.Intn(3)
		var svcs [][]mDef
		for s := 0; s < k; s++ {
			svcs = append(svcs, genService(r, tbl, s))
		}
		if j := i - len(mergeCorpus); j < len(mergeMutations) {
			// catalogue sweep: every single-point difference once per run, between two services that both have
			// the whole table (so the difference is sure to meet its counterpart), plus random extra services
			full := func() []mDef { return append([]mDef{}, tbl...) }
			svcs[0], svcs[1] = full(), full()
			which := r.Intn(2)
			if mergeMutations[j].Apply(svcs[which]) {
				mc.Mutation, mc.Mutated = mergeMutations[j].Name, which
			}
		} else if i%3 != 0 || m.prop == "C09" {
			// one single-point difference in one service (C09 always mutates; the others two thirds of the time)
			mu := mergeMutations[(i/3+r.Intn(3))%len(mergeMutations)]
			which := r.Intn(k)
			cp := append([]mDef{}, svcs[which]...)
			if mu.Apply(cp) {
				svcs[which] = cp
				mc.Mutation, mc.Mutated = mu.Name, which
			}
		}
		for s := range svcs {
			mc.SDLs = append(mc.SDLs, renderService(svcs[s], s))
		}
		if r.Intn(5) == 0 {
			mc.OldPrelude = 1 + r.Intn(len(mc.SDLs))
		}
		if r.Intn(3) == 0 {
			// the gateway is given query fields of its own (always under the same one or two names, with whatever
			// type and arguments this case draws: gateways built one after the other in one process differ in them)
			var objs []string
			for _, d := range svcs[0] {
				if d.Kind == "type" && d.Name != "Query" && d.Name != "Mutation" {
					objs = append(objs, d.Name)
				}
			}
			sort.Strings(objs)
			if len(objs) > 0 {
				mc.GatewayFields = append(mc.GatewayFields, GwField{Name: "viewer", Type: objs[r.Intn(len(objs))], List: r.Intn(3) == 0, Arg: r.Intn(2) == 0})
				if r.Intn(2) == 0 {
					mc.GatewayFields = append(mc.GatewayFields, GwField{Name: "current", Type: objs[r.Intn(len(objs))], Arg: r.Intn(2) == 0})
				}
			}
		}
		id = fmt.Sprintf("gen:%d", i)
	}
	res := CaseResult{ID: id, Key: strings.Join(mc.SDLs, "\n----\n")}
	// every service's SDL must load on its own (a mutation may have made it invalid: then it is not a case)
	var schemas []*ast.Schema
	for _, sdl := range mc.SDLs {
		s, err := gqlparser.LoadSchema(&ast.Source{Input: sdl})
		if err != nil {
			res.Skipped = "service-schema-invalid"
			return res
		}
		schemas = append(schemas, s)
	}
	if mc.OldPrelude > 0 && mc.OldPrelude <= len(schemas) {
		if d := schemas[mc.OldPrelude-1].Directives["deprecated"]; d != nil {
			old := *d
			old.Locations = []ast.DirectiveLocation{ast.LocationFieldDefinition, ast.LocationEnumValue}
			schemas[mc.OldPrelude-1].Directives["deprecated"] = &old
		}
	}
	internal, _ := gqlparser.LoadSchema(&ast.Source{Input: internalSDL})
	// the gateway's own additions: Node, Query.node and the query fields it was given (a type they name must be one
	// a service declares)
	for _, g := range mc.GatewayFields {
		internal.Types["Query"].Fields = append(internal.Types["Query"].Fields, &ast.FieldDefinition{Name: g.Name, Type: g.astType(), Arguments: g.astArgs()})
	}
	feat := map[string]bool{fmt.Sprintf("services-%d", len(mc.SDLs)): true}
	if len(mc.GatewayFields) > 0 {
		feat["gateway-query-fields"] = true
	}
	if mc.OldPrelude > 0 {
		feat["old-prelude"] = true
	}
	if mc.Mutation != "" {
		feat["mutation:"+strings.SplitN(mc.Mutation, ":", 2)[0]] = true
	} else {
		feat["compatible"] = true
	}
	res.Features = FeatList(feat)
	shared := 0
	seen := map[string]int{}
	for _, s := range schemas {
		for n := range s.Types {
			if !builtinName(n) && n != "Query" {
				seen[n]++
			}
		}
	}
	for _, v := range seen {
		if v > 1 {
			shared++
		}
	}
	res.Nontrivial = shared > 0
	add := func(channel, what string, exp, obs interface{}) {
		res.Fails = append(res.Fails, Failure{Channel: channel, Classifier: "unclassified", What: what, Input: mc, Expected: exp, Observed: obs})
	}
	// all gateways of a case are built from the SAME parsed schema objects (one process building several gateways)
	var srcBefore []string
	for _, sc := range schemas {
		srcBefore = append(srcBefore, Canon(SerSchema(sc)))
	}
	ps := perms(len(mc.SDLs))
	if c.Tier == "quick" && len(ps) > 6 {
		ps = append(ps[:3], ps[len(ps)-3:]...)
	}
	var first *mergeOutcome
	srcModified := false
	firstOrder := ""
	counters := map[string]int{"orders": 0}
	for _, order := range ps {
		for rep := 0; rep < 2; rep++ {
			out := buildOrderWith(mc.SDLs, order, mc.GatewayFields, schemas...)
			counters["orders"]++
			counters["outcome_"+out.Kind]++
			// the model on the same order (internal schema last, as gateway.New does)
			var ser []interface{}
			for _, k := range order {
				ser = append(ser, SerSchema(schemas[k]))
			}
			ser = append(ser, SerSchema(internal))
			ans, err := c.Drv.Call(map[string]interface{}{"op": "merge", "schemas": ser})
			if err != nil {
				add("harness", err.Error(), nil, nil)
				return res
			}
			modelOK := ans["ok"] != nil
			switch {
			case out.Kind == "panic":
				add("L1.outcome-panic", fmt.Sprintf("gateway.New panicked for service order %v: %s", order, firstLine(out.Err)), map[string]interface{}{"model_ok": modelOK}, out.Err)
			case modelOK && out.Kind != "ok":
				add("L1.outcome-rejected", fmt.Sprintf("compatible services (order %v) are rejected: %s", order, firstLine(out.Err)), "ok", out.Err)
			case !modelOK && out.Kind == "ok":
				add("L1.outcome-accepted", fmt.Sprintf("incompatible definitions (%s) are accepted in service order %v", mc.Mutation, order), "error", "ok")
			case modelOK && Canon(ans["ok"]) != out.Canon:
				add("L1.content", fmt.Sprintf("merged schema differs from the model's union (order %v): %s", order, diffHint(Canon(ans["ok"]), out.Canon)), ans["ok"], out.Canon)
			}
			// no construction, successful or not, modifies the service schemas it was given: the next construction
			// from the same objects (a retry, a second gateway in the process) must see what this one saw
			if !srcModified {
				for k, sc := range schemas {
					if now := Canon(SerSchema(sc)); now != srcBefore[k] {
						srcModified = true
						add("L0.sources-modified", fmt.Sprintf("gateway.New (%s, order %v) modified the schema object of service %d it was given: %s", out.Kind, order, k, diffHint(srcBefore[k], now)), srcBefore[k], now)
						break
					}
				}
			}
			if first == nil {
				o := out
				first, firstOrder = &o, fmt.Sprint(order)
			} else if first.Kind != out.Kind {
				add("L0.order-outcome", fmt.Sprintf("construction %s for order %s but %s for order %v", first.Kind, firstOrder, out.Kind, order), first.Kind, out.Kind)
			} else if out.Kind == "ok" && first.Canon != out.Canon {
				add("L0.order-content", fmt.Sprintf("merged type system differs between order %s and %v: %s", firstOrder, order, diffHint(first.Canon, out.Canon)), first.Canon, out.Canon)
			}
			if out.Kind == "ok" && rep == 0 {
				// whatever the model says about compatibility: a construction that succeeded must contain every type,
				// field, argument, enum value, union member and interface of every service it was built from
				if miss := missingFromMerged(out.Fed.Merged, schemas, order); miss != "" {
					add("L0.contains", "construction succeeded but the merged schema lacks "+miss, nil, nil)
				}
				// every directive a service declares — the built-in ones included, whose definitions differ between
				// revisions of the specification — is declared by the merged schema with at least the service's
				// locations and arguments
				if miss := directivesMissing(out.Fed.Merged, schemas, order); miss != "" {
					add("L0.contains", "construction succeeded but the merged schema lacks "+miss, nil, nil)
				}
				// the merged schema must be a valid schema again
				if _, err := gqlparser.LoadSchema(&ast.Source{Input: PrintSchema(out.Fed.Merged)}); err != nil {
					add("L0.merged-invalid", "the printed merged schema does not load: "+firstLine(err.Error()), nil, nil)
				}
				var gwFieldTypes []string
				for _, g := range mc.GatewayFields {
					gwFieldTypes = append(gwFieldTypes, g.Type)
				}
				if d := routeDiff(c, out.Fed, schemas, order, internal, gwFieldTypes...); d != "" {
					add("L1.routing", d, nil, nil)
				}
			}
			// stop at the first failure that belongs to the property asked for: a difference from the model in one
			// order (C03's subject) must not hide the comparison between orders (C10's), and vice versa
			if len(filterMerge(m.prop, res.Fails)) > 0 {
				break
			}
		}
		if len(filterMerge(m.prop, res.Fails)) > 0 {
			break
		}
	}
	if len(filterMerge(m.prop, res.Fails)) == 0 && first != nil && first.Kind == "ok" {
		// constructions do not interfere: a gateway built from a sub-list keeps its merged schema while another
		// gateway is built from an overlapping sub-list of the same schema objects, and no construction modifies
		// the service schemas it was given
		if len(schemas) >= 3 {
			// the second gateway gets query fields of the same names with other signatures
			var other []GwField
			for _, g := range mc.GatewayFields {
				o := g
				o.Arg, o.List = !g.Arg, !g.List
				other = append(other, o)
			}
			g1 := buildOrderWith(mc.SDLs, []int{0, 1}, mc.GatewayFields, schemas...)
			g2 := buildOrderWith(mc.SDLs, []int{0, 2}, other, schemas...)
			counters["sublist_constructions"] += 2
			if g1.Kind == "ok" && g2.Kind == "ok" {
				again := Canon(CanonMerged(g1.Fed.Merged))
				if again != g1.Canon {
					add("L0.construction-isolation", "the merged schema of a gateway built from services [0 1] changed when a gateway was built from [0 2]: "+diffHint(g1.Canon, again), g1.Canon, again)
				}
				ans, err := c.Drv.Call(map[string]interface{}{"op": "merge", "schemas": []interface{}{SerSchema(schemas[0]), SerSchema(schemas[1]), SerSchema(internal)}})
				if err == nil && ans["ok"] != nil && Canon(ans["ok"]) != again {
					add("L1.content", "merged schema of services [0 1] differs from the model's union after another gateway was built: "+diffHint(Canon(ans["ok"]), again), ans["ok"], again)
				}
				if _, err := gqlparser.LoadSchema(&ast.Source{Input: PrintSchema(g1.Fed.Merged)}); err != nil {
					add("L0.merged-invalid", "the printed merged schema of [0 1] does not load after another gateway was built: "+firstLine(err.Error()), nil, nil)
				}
			}
		}
	}
	for k, v := range sigStats {
		counters[k] = v
	}
	res.Counters = counters
	// attribute to the property asked for
	if len(filterMerge(m.prop, res.Fails)) == 0 && len(schemas) >= 2 && len(mc.GatewayFields) == 0 {
		// two entries of the service list under one URL (the URL does not determine the schema): every order of
		// the list must give the outcome and the merged type system of the model, which does not look at URLs
		urls := make([]string, len(schemas))
		for k := range urls {
			urls[k] = fmt.Sprintf("S%d", k)
		}
		urls[1] = urls[0]
		var firstKind, firstCanon, firstOrd string
		dps := perms(len(schemas))
		if len(dps) > 6 {
			dps = append(dps[:3], dps[len(dps)-3:]...)
		}
		for _, order := range dps {
			kind, canon, errText := buildSources(schemas, urls, order)
			counters["shared_url_constructions"]++
			var ser []interface{}
			for _, k := range order {
				ser = append(ser, SerSchema(schemas[k]))
			}
			ser = append(ser, SerSchema(internal))
			ans, err := c.Drv.Call(map[string]interface{}{"op": "merge", "schemas": ser})
			if err != nil {
				break
			}
			modelOK := ans["ok"] != nil
			switch {
			case kind == "panic":
				add("L1.outcome-panic", fmt.Sprintf("gateway.New panicked for a service list with a shared URL, order %v: %s", order, firstLine(errText)), nil, errText)
			case modelOK && kind != "ok":
				add("L1.outcome-rejected", fmt.Sprintf("compatible services (two of them under one URL, order %v) are rejected: %s", order, firstLine(errText)), "ok", errText)
			case !modelOK && kind == "ok":
				add("L1.outcome-accepted", fmt.Sprintf("incompatible definitions (%s) are accepted when two services share a URL (order %v)", mc.Mutation, order), "error", "ok")
			case modelOK && Canon(ans["ok"]) != canon:
				add("L1.content", fmt.Sprintf("merged schema of a service list with a shared URL differs from the model's union (order %v): %s", order, diffHint(Canon(ans["ok"]), canon)), ans["ok"], canon)
			}
			if firstOrd == "" {
				firstKind, firstCanon, firstOrd = kind, canon, fmt.Sprint(order)
			} else if firstKind != kind {
				add("L0.order-outcome", fmt.Sprintf("with two services under one URL: construction %s for order %s but %s for order %v", firstKind, firstOrd, kind, order), firstKind, kind)
			} else if kind == "ok" && firstCanon != canon {
				add("L0.order-content", fmt.Sprintf("with two services under one URL: merged type system differs between order %s and %v: %s", firstOrd, order, diffHint(firstCanon, canon)), firstCanon, canon)
			}
			if len(filterMerge(m.prop, res.Fails)) > 0 {
				break
			}
		}
	}
	if len(filterMerge(m.prop, res.Fails)) == 0 && i%2 == 0 {
		// the same services as a deployment sees them: every schema rebuilt from the service's answer to the
		// introspection query (no source positions anywhere, no applied directives). The model is asked about exactly
		// these schema objects; outcome, content and the comparison between two orders as above.
		var intro []*ast.Schema
		for _, sc := range schemas {
			is, err := IntrospectedSchema(sc)
			if err != nil {
				intro = nil
				break
			}
			intro = append(intro, is)
		}
		if intro != nil {
			feat["introspected-sources"] = true
			res.Features = FeatList(feat)
			fwd := make([]int, len(intro))
			rev := make([]int, len(intro))
			for k := range intro {
				fwd[k], rev[k] = k, len(intro)-1-k
			}
			var firstKind, firstCanon string
			for oi, order := range [][]int{fwd, rev} {
				out := buildOrderWith(mc.SDLs, order, mc.GatewayFields, intro...)
				counters["introspected_constructions"]++
				counters["introspected_outcome_"+out.Kind]++
				var ser []interface{}
				ok := true
				func() {
					defer func() {
						if recover() != nil {
							ok = false
						}
					}()
					for _, k := range order {
						ser = append(ser, SerSchema(intro[k]))
					}
					ser = append(ser, SerSchema(internal))
				}()
				if !ok {
					break
				}
				ans, err := c.Drv.Call(map[string]interface{}{"op": "merge", "schemas": ser})
				if err != nil {
					break
				}
				modelOK := ans["ok"] != nil
				switch {
				case out.Kind == "panic":
					add("L1.outcome-panic", fmt.Sprintf("gateway.New panicked on services whose schemas were rebuilt from introspection (no source positions), order %v: %s", order, firstLine(out.Err)), map[string]interface{}{"model_ok": modelOK}, out.Err)
				case modelOK && out.Kind != "ok":
					add("L1.outcome-rejected", fmt.Sprintf("compatible services (schemas rebuilt from introspection, order %v) are rejected: %s", order, firstLine(out.Err)), "ok", out.Err)
				case !modelOK && out.Kind == "ok":
					add("L1.outcome-accepted", fmt.Sprintf("incompatible definitions (%s) are accepted when the schemas were rebuilt from introspection (order %v)", mc.Mutation, order), "error", "ok")
				case modelOK && Canon(ans["ok"]) != out.Canon:
					add("L1.content", fmt.Sprintf("merged schema of introspected services differs from the model's union (order %v): %s", order, diffHint(Canon(ans["ok"]), out.Canon)), ans["ok"], out.Canon)
				}
				if oi == 0 {
					firstKind, firstCanon = out.Kind, out.Canon
				} else if firstKind != out.Kind {
					add("L0.order-outcome", fmt.Sprintf("with schemas rebuilt from introspection: construction %s for order %v but %s for the reverse", firstKind, fwd, out.Kind), firstKind, out.Kind)
				} else if out.Kind == "ok" && firstCanon != out.Canon {
					add("L0.order-content", "with schemas rebuilt from introspection: merged type system differs between an order and its reverse: "+diffHint(firstCanon, out.Canon), firstCanon, out.Canon)
				}
				if len(filterMerge(m.prop, res.Fails)) > 0 {
					break
				}
			}
		} else {
			counters["introspection_failed"]++
		}
		res.Counters = counters
	}
	res.Fails = filterMerge(m.prop, res.Fails)
	if i%29 == 0 || i < len(mergeCorpus) {
		res.Sample = map[string]interface{}{"mutation": mc.Mutation, "services": len(mc.SDLs), "orders": counters["orders"], "outcomes": counters, "first_service": mc.SDLs[0]}
	}
	return res
}

// buildSources builds a gateway straight from a list of (URL, schema) entries — URLs may repeat — and captures the
// merged schema through the planner
func buildSources(schemas []*ast.Schema, urls []string, order []int) (kind, canon, errText string) {
	var sources []*graphql.RemoteSchema
	for _, k := range order {
		sources = append(sources, &graphql.RemoteSchema{Schema: schemas[k], URL: urls[k]})
	}
	f := &Fed{ByURL: map[string]*Service{}}
	factory := gateway.QueryerFactory(func(ctx *gateway.PlanningContext, url string) graphql.Queryer { return nil })
	var gw *gateway.Gateway
	var err error
	var panicked interface{}
	func() {
		defer func() { panicked = recover() }()
		gw, err = gateway.New(sources, gateway.WithPlanner(&capPlanner{inner: &gateway.MinQueriesPlanner{}, fed: f}), gateway.WithQueryerFactory(&factory), gateway.WithLogger(Quiet{}))
	}()
	if panicked != nil {
		return "panic", "", fmt.Sprint(panicked)
	}
	if err != nil {
		return "error", "", err.Error()
	}
	f.GW = gw
	f.Plan(`{ __typename }`, 5*time.Second)
	if f.Merged == nil {
		return "error", "", "merged schema could not be captured"
	}
	return "ok", Canon(CanonMerged(f.Merged)), ""
}

func diffHint(a, b string) string {
	n := len(a)
	if len(b) < n {
		n = len(b)
	}
	i := 0
	for i < n && a[i] == b[i] {
		i++
	}
	lo := i - 60
	if lo < 0 {
		lo = 0
	}
	hi := func(s string) int {
		if i+80 < len(s) {
			return i + 80
		}
		return len(s)
	}
	return fmt.Sprintf("…%s… vs …%s…", a[lo:hi(a)], b[lo:hi(b)])
}

func filterMerge(prop string, fails []Failure) []Failure {
	var out []Failure
	for _, f := range fails {
		keep := false
		switch prop {
		case "C09":
			keep = f.Channel == "L1.outcome-panic" || f.Channel == "L1.outcome-accepted" || f.Channel == "harness"
		case "C10":
			keep = strings.HasPrefix(f.Channel, "L0.order") || f.Channel == "L0.sources-modified" || f.Channel == "harness"
		case "C03":
			keep = f.Channel == "L1.content" || f.Channel == "L1.outcome-rejected" || f.Channel == "L0.contains" || f.Channel == "L0.merged-invalid" || f.Channel == "L1.routing" || f.Channel == "harness" ||
				f.Channel == "L0.construction-isolation" || f.Channel == "L0.sources-modified"
		}
		if keep {
			out = append(out, f)
		}
	}
	return out
}

// routeDiff compares the captured FieldURLMap with the Lean routing model.
func routeDiff(c *Ctx, f *Fed, schemas []*ast.Schema, order []int, internal *ast.Schema, gwFieldTypes ...string) string {
	var urls []string
	var ordered []*ast.Schema
	for _, k := range order {
		urls = append(urls, fmt.Sprintf("S%d", k))
		ordered = append(ordered, schemas[k])
	}
	return routeDiffURLs(c, f, urls, ordered, internal, gwFieldTypes...)
}

// routeDiffURLs: the routing table the gateway built (captured through the planner) against the Lean routing model
// computed from the service schemas themselves, in registration order
func routeDiffURLs(c *Ctx, f *Fed, urls []string, schemas []*ast.Schema, internal *ast.Schema, gwFieldTypes ...string) string {
	// the gateway can answer `id` of the type of each of its own query fields (node: Node, then those it was given)
	gwTypes := append([]string{"Node"}, gwFieldTypes...)
	order := make([]int, len(urls))
	for i := range order {
		order[i] = i
	}
	serSrc := func(url string, s *ast.Schema) map[string]interface{} {
		types := map[string]interface{}{}
		for n, d := range s.Types {
			var fs []string
			for _, fd := range d.Fields {
				fs = append(fs, fd.Name)
			}
			sort.Strings(fs)
			types[n] = fs
		}
		return map[string]interface{}{"url": url, "types": types}
	}
	var srcs []interface{}
	for _, k := range order {
		srcs = append(srcs, serSrc(urls[k], schemas[k]))
	}
	internalURL := ""
	known := map[string]bool{}
	for _, k := range order {
		known[urls[k]] = true
	}
	for _, locs := range f.Locations {
		for _, l := range locs {
			if !known[l] {
				internalURL = l
			}
		}
	}
	var keys []interface{}
	var names []string
	for k := range f.Locations {
		names = append(names, k)
	}
	sort.Strings(names)
	for _, k := range names {
		parts := strings.SplitN(k, ".", 2)
		keys = append(keys, []string{parts[0], parts[1]})
	}
	// also ask the model about every declared field (nothing may be missing from the table)
	asked := map[string]bool{}
	for _, k := range order {
		for n, d := range schemas[k].Types {
			for _, fd := range d.Fields {
				if _, ok := f.Locations[n+"."+fd.Name]; !ok {
					keys = append(keys, []string{n, fd.Name})
				}
			}
			// __typename can be asked at every service that defines the type, whatever its kind (a union or an
			// enum has no fields of its own, and a query may still select __typename on a union-typed field)
			if _, ok := f.Locations[n+".__typename"]; !ok && !asked[n] {
				asked[n] = true
				keys = append(keys, []string{n, "__typename"})
			}
		}
	}
	ans, err := c.Drv.Call(map[string]interface{}{"op": "route", "sources": srcs, "internal": serSrc(internalURL, internal), "gwTypes": gwTypes, "keys": keys})
	if err != nil {
		return "harness: " + err.Error()
	}
	// __typename is a field of composite output types only: what the table holds for scalars, enums and input
	// objects can never be asked for and is not compared
	composite := map[string]bool{}
	for _, k := range order {
		for n, d := range schemas[k].Types {
			if d.Kind == ast.Object || d.Kind == ast.Interface || d.Kind == ast.Union {
				composite[n] = true
			}
		}
	}
	for n, d := range internal.Types {
		if d.Kind == ast.Object || d.Kind == ast.Interface || d.Kind == ast.Union {
			composite[n] = true
		}
	}
	var ansKeys []string
	for k := range ans {
		ansKeys = append(ansKeys, k)
	}
	sort.Strings(ansKeys)
	for _, k := range ansKeys {
		v := ans[k]
		if strings.HasSuffix(k, ".__typename") && !composite[strings.TrimSuffix(k, ".__typename")] {
			continue
		}
		var want []string
		for _, x := range v.([]interface{}) {
			want = append(want, x.(string))
		}
		got := f.Locations[k]
		if fmt.Sprint(want) != fmt.Sprint([]string(got)) && !(len(want) == 0 && len(got) == 0) {
			return fmt.Sprintf("routing of %s: table has %v, the model %v", k, got, want)
		}
	}
	return ""
}

func init() {
	Runners["C03"] = mergeRunner{"C03"}
	Runners["C09"] = mergeRunner{"C09"}
	Runners["C10"] = mergeRunner{"C10"}
}

// directivesMissing names the first directive declaration part of a service that the merged schema does not hold
func directivesMissing(merged *ast.Schema, schemas []*ast.Schema, order []int) string {
	for _, k := range order {
		var names []string
		for n := range schemas[k].Directives {
			names = append(names, n)
		}
		sort.Strings(names)
		for _, n := range names {
			d, m := schemas[k].Directives[n], merged.Directives[n]
			if d == nil {
				continue
			}
			if m == nil {
				return fmt.Sprintf("directive @%s of service %d", n, k)
			}
			for _, l := range d.Locations {
				found := false
				for _, ml := range m.Locations {
					if ml == l {
						found = true
					}
				}
				if !found {
					return fmt.Sprintf("location %s of directive @%s of service %d (merged: %v)", l, n, k, m.Locations)
				}
			}
			for _, a := range d.Arguments {
				if m.Arguments.ForName(a.Name) == nil {
					return fmt.Sprintf("argument %s of directive @%s of service %d", a.Name, n, k)
				}
			}
		}
	}
	return ""
}

// missingFromMerged names the first definition part of a service that the merged schema does not hold ("" if none)
func missingFromMerged(merged *ast.Schema, schemas []*ast.Schema, order []int) string {
	for _, k := range order {
		src := schemas[k]
		var names []string
		for n := range src.Types {
			if !builtinName(n) {
				names = append(names, n)
			}
		}
		sort.Strings(names)
		for _, n := range names {
			d := src.Types[n]
			m := merged.Types[n]
			if d == nil {
				continue
			}
			if m == nil {
				return fmt.Sprintf("type %s of service %d", n, k)
			}
			if m.Kind != d.Kind {
				return fmt.Sprintf("%s %s of service %d (merged as %s)", d.Kind, n, k, m.Kind)
			}
			for _, f := range d.Fields {
				if strings.HasPrefix(f.Name, "__") {
					continue
				}
				mf := m.Fields.ForName(f.Name)
				if mf == nil {
					return fmt.Sprintf("field %s.%s of service %d", n, f.Name, k)
				}
				// with the same signature: the type of the field and of each argument as the service wrote it
				if typeStr(mf.Type) != typeStr(f.Type) {
					return fmt.Sprintf("field %s.%s of service %d with its type %s (merged: %s)", n, f.Name, k, typeStr(f.Type), typeStr(mf.Type))
				}
				for _, a := range f.Arguments {
					ma := mf.Arguments.ForName(a.Name)
					if ma == nil {
						return fmt.Sprintf("argument %s.%s(%s:) of service %d", n, f.Name, a.Name, k)
					}
					if typeStr(ma.Type) != typeStr(a.Type) {
						return fmt.Sprintf("argument %s.%s(%s:) of service %d with its type %s (merged: %s)", n, f.Name, a.Name, k, typeStr(a.Type), typeStr(ma.Type))
					}
				}
			}
			for _, v := range d.EnumValues {
				if v != nil && m.EnumValues.ForName(v.Name) == nil {
					return fmt.Sprintf("enum value %s.%s of service %d", n, v.Name, k)
				}
			}
			for _, t := range d.Types {
				found := false
				for _, mt := range m.Types {
					if mt == t {
						found = true
					}
				}
				if !found {
					return fmt.Sprintf("union member %s of %s of service %d", t, n, k)
				}
			}
			for _, itf := range d.Interfaces {
				found := false
				for _, mi := range m.Interfaces {
					if mi == itf {
						found = true
					}
				}
				if !found {
					return fmt.Sprintf("interface %s of %s of service %d", itf, n, k)
				}
			}
		}
	}
	return ""
}
