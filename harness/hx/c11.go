package hx

import (
	"context"
	"fmt"
	"math/rand"
	"sort"
	"strings"
	"sync"
	"time"

	"github.com/nautilus/gateway"
	"github.com/nautilus/graphql"
	"github.com/vektah/gqlparser/v2/ast"
	"github.com/vektah/gqlparser/v2/formatter"
)

// ---------------------------------------------------------------------------------------------
// C11 — requests are isolated and plans are reusable
// ---------------------------------------------------------------------------------------------

type c11 struct{}

type reqKey struct{}

func (c11) Cases(tier string) int {
	n := map[string]int{"quick": 60, "search": 200, "thorough": 600}[tier]
	if n == 0 {
		n = 60
	}
	return n
}

func (c11) Rule() string {
	return "one plan (planned once through GetPlans, also taken from an AutomaticQueryPlanCache) executed 8 (quick) / 32 (thorough) times concurrently and 3 times sequentially, each execution with its own variable values (argument ids, @include flags; for operations whose variables have defaults some requests send no variables at all or only some) and its own context value; built with -race; checked: a deep structural print of the plan (step queries, selection sets, fragment definitions, variables, insertion points, scrub table) is identical before and after; every outbound call carries only the variables of the request whose context it carries, with that request's values; every response equals a freshly planned solitary execution of the same request and the Lean monolith; on the caching gateway a sequence of hash-less requests whose texts differ only in significant white space is answered like by a gateway that has seen nothing else; non-trivial = the plan has at least one dependent step and a variable used in it; distinct = distinct (query, variable assignment); half of the cases with services that overwrite the variables map they are handed (the request's variables must be unchanged afterwards, L0.variables-own-map); every fourth case a net-twin case with cached plans and 2-7 concurrent requests on the client library's network queryers (race detector on)"
}

var c11Queries = []string{
	`query Q($a: ID!, $s: Boolean!) { user(id: $a) { firstName lastName @include(if: $s) friends { nick } } }`,
	`query Q($a: ID!, $s: Boolean!) { user(id: $a) { firstName photos { url likes @skip(if: $s) } } allUsers { lastName @include(if: $s) } }`,
	`query Q($a: ID!, $s: Boolean!) { user(id: $a) { ...F } } fragment F on User { firstName favorite @include(if: $s) { url likes likedBy { nick } } }`,
	`query Q($a: ID!, $s: Boolean!) { node(id: $a) { ... on User { firstName lastName nick @skip(if: $s) } } }`,
	// variables a request may leave out (defaults): some requests send no variables object at all, some only one
	`query Q($a: ID = "u2", $s: Boolean = true) { user(id: $a) { firstName lastName @include(if: $s) friends { nick } } }`,
	`query Q($a: ID = "u3", $s: Boolean = false) { user(id: $a) { firstName photos { url likes @skip(if: $s) } } allUsers { lastName @include(if: $s) } }`,
}

// planPrint renders everything observable of a plan.
func planPrint(p *gateway.QueryPlan) string {
	var sb strings.Builder
	printSel := func(ss ast.SelectionSet, frags ast.FragmentDefinitionList) string {
		var b strings.Builder
		formatter.NewFormatter(&b).FormatQueryDocument(&ast.QueryDocument{Operations: ast.OperationList{&ast.OperationDefinition{Operation: ast.Query, SelectionSet: ss}}, Fragments: frags})
		return b.String()
	}
	var walk func(steps []*gateway.QueryPlanStep, depth int)
	walk = func(steps []*gateway.QueryPlanStep, depth int) {
		for _, s := range steps {
			var vars []string
			for v := range s.Variables {
				vars = append(vars, v)
			}
			sort.Strings(vars)
			fmt.Fprintf(&sb, "%d|%s|%s|%v|%v|%s|%s|%s\n", depth, StepURL(s), s.ParentType, s.InsertionPoint, vars, s.QueryString, printSel(s.SelectionSet, s.FragmentDefinitions), docPrint(s.QueryDocument))
			walk(s.Then, depth+1)
		}
	}
	if p.RootStep != nil {
		walk(p.RootStep.Then, 0)
	}
	var keys []string
	for k := range p.FieldsToScrub {
		keys = append(keys, k)
	}
	sort.Strings(keys)
	for _, k := range keys {
		fmt.Fprintf(&sb, "scrub %s %v\n", k, p.FieldsToScrub[k])
	}
	if p.Operation != nil {
		fmt.Fprintf(&sb, "op %s %s\n", p.Operation.Name, printSel(p.Operation.SelectionSet, p.FragmentDefinitions))
	}
	return sb.String()
}

func docPrint(d *ast.QueryDocument) string {
	if d == nil {
		return ""
	}
	var b strings.Builder
	formatter.NewFormatter(&b).FormatQueryDocument(d)
	return b.String()
}

func (c11) Run(c *Ctx, i int) CaseResult {
	r := c.Rand(i + 81000000)
	q := c11Queries[r.Intn(len(c11Queries))]
	res := CaseResult{ID: fmt.Sprintf("gen:%d", i)}
	store := GenStore(rand.New(rand.NewSource(5)), false)
	var opts []gateway.Option
	cachedPlan := r.Intn(2) == 0
	if cachedPlan {
		opts = append(opts, gateway.WithAutomaticQueryPlanCache())
	}
	f, err := NewFed(FixedFed(), store, opts...)
	if err != nil {
		res.Fails = append(res.Fails, Failure{Channel: "harness", Classifier: "harness-error", What: err.Error()})
		return res
	}
	n := 8
	if c.Tier != "quick" {
		n = 32
	}
	ids := []string{"u1", "u2", "u3", "zzz"}
	if strings.Contains(q, "node(id:") {
		ids = ids[:3] // an unknown id under the gateway's own node field is a known-finding region
	}
	type reqT struct {
		vars  map[string]interface{}
		want  string
		calls int // outbound calls of the solitary execution
	}
	reqs := make([]reqT, n+3)
	optional := strings.Contains(q, "$a: ID =")
	for k := range reqs {
		reqs[k].vars = map[string]interface{}{"a": ids[r.Intn(len(ids))], "s": r.Intn(2) == 0}
		if optional {
			switch r.Intn(4) {
			case 0:
				reqs[k].vars = nil
			case 1:
				delete(reqs[k].vars, "a")
			case 2:
				delete(reqs[k].vars, "s")
			}
		}
	}
	res.Key = fmt.Sprint(q, reqs)
	// solitary, freshly planned executions (and the Lean oracle)
	for k := range reqs {
		fc, err := RunFed(c, FedInput{Spec: FixedFed(), StoreSeed: 5, Query: q, OpName: "Q", Vars: reqs[k].vars}, 8*time.Second)
		if err != nil || fc.Invalid != "" {
			res.Skipped = "reference-failed"
			return res
		}
		if InKnownRegion(fc.Classes) != "" {
			res.Skipped = "known-region:" + InKnownRegion(fc.Classes)
			return res
		}
		reqs[k].want = Canon(fc.Out.Data) + "|" + fmt.Sprint(errMultiset(fc.Out.Err))
		reqs[k].calls = fc.Fed.TotalCalls()
		if ok, _ := fc.Status(); !ok {
			res.Skipped = "reference-not-transparent" // C01's subject
			return res
		}
	}
	if i%4 == 2 {
		// concurrent requests sharing cached plans on a gateway in its default configuration: the plan's queryers are
		// the client library's network queryers (over an in-process transport); no request middlewares (KF-D37)
		tc := NetTwinCase{Query: c05Queries[r.Intn(len(c05Queries))], StoreSeed: 5, ListLen: []int{0, 3, 12}[r.Intn(3)], Cached: true, Repeat: 2 + r.Intn(6)}
		if nf := RunNetTwin(tc); len(nf) > 0 {
			res.Nontrivial = true
			res.Fails = nf
			return res
		}
	}
	rc0 := &gateway.RequestContext{Context: context.Background(), Query: q, OperationName: "Q", CacheKey: ""}
	plans, perr := f.GW.GetPlans(rc0)
	if perr != nil {
		res.Skipped = "plan-error"
		return res
	}
	before := planPrint(plans[0])
	// every service call takes a moment, so that the calls of concurrent requests (several of which carry the very
	// same variables) overlap
	f.ResetLogs()
	for _, svc := range f.Services {
		svc.Gate = func(sv *Service, n int, in *graphql.QueryInput) { time.Sleep(300 * time.Microsecond) }
	}
	// half of the time the services overwrite the variables map they are handed once they have answered (the library's
	// network queryer does so with uploads): the map of a call is that call's own
	scribble := r.Intn(2) == 0
	varsBefore := make([]string, len(reqs))
	for k := range reqs {
		varsBefore[k] = Canon(reqs[k].vars)
	}
	for _, svc := range f.Services {
		svc.Scribble = scribble
	}
	got := make([]string, len(reqs))
	var wg sync.WaitGroup
	exec := func(k int) {
		ctx := context.WithValue(context.Background(), reqKey{}, k)
		rc := &gateway.RequestContext{Context: ctx, Query: q, OperationName: "Q", Variables: reqs[k].vars}
		pl := plans
		if cachedPlan && k%2 == 0 {
			// through the cache: the same plan list object must be handed out
			rc.CacheKey = rc0.CacheKey
			rc.Query = ""
			p2, err := f.GW.GetPlans(rc)
			if err == nil {
				pl = p2
			}
		}
		d, e := f.GW.Execute(rc, pl)
		got[k] = Canon(d) + "|" + fmt.Sprint(errMultiset(e))
	}
	for k := 0; k < n; k++ {
		wg.Add(1)
		go func(k int) { defer wg.Done(); exec(k) }(k)
	}
	wg.Wait()
	for k := n; k < n+3; k++ {
		exec(k)
	}
	after := planPrint(plans[0])
	cfg := map[string]interface{}{"query": q, "requests": len(reqs), "plan_from_cache": cachedPlan, "services_overwrite_their_variables": scribble}
	bad := func(channel, what string, exp, obs interface{}) {
		res.Fails = append(res.Fails, Failure{Channel: channel, Classifier: "unclassified", What: what, Input: cfg, Expected: exp, Observed: obs})
	}
	if before != after {
		bad("L0.plan-mutated", "executing changed the plan: "+diffHint(before, after), nil, nil)
	}
	for k := range reqs {
		if now := Canon(reqs[k].vars); now != varsBefore[k] {
			bad("L0.variables-own-map", fmt.Sprintf("the variables of request %d changed while it was executed (services that overwrite the map they are handed: %v): a call was handed the request's own map", k, scribble), varsBefore[k], now)
			break
		}
	}
	for k := range reqs {
		if got[k] != reqs[k].want {
			bad("L0.isolation", fmt.Sprintf("request %d (variables %v) got a response that differs from its solitary execution", k, reqs[k].vars), reqs[k].want, got[k])
			break
		}
	}
	// every outbound call: variables belong to the request whose context it carries
	ncalls := 0
	perReq := map[int]int{}
	for _, svc := range f.Services {
		for _, call := range svc.Calls() {
			ncalls++
			k, ok := call.Ctx.Value(reqKey{}).(int)
			if !ok {
				if call.Ctx == context.Background() {
					continue // the planning-time reference call
				}
				bad("L0.context", "an outbound call carries a context that belongs to no request", nil, call.Query)
				continue
			}
			perReq[k]++
			for name, v := range call.Variables {
				if name == "id" {
					continue
				}
				if fmt.Sprint(v) != fmt.Sprint(reqs[k].vars[name]) {
					bad("L0.variables", fmt.Sprintf("a call made for request %d carries $%s = %v, that request's value is %v", k, name, v, reqs[k].vars[name]), reqs[k].vars, call.Variables)
				}
			}
		}
	}
	for k := range reqs {
		if perReq[k] != reqs[k].calls {
			bad("L0.own-calls", fmt.Sprintf("request %d (variables %v) made %d outbound calls under its own context, its solitary execution makes %d: its calls were not all made for it", k, reqs[k].vars, perReq[k], reqs[k].calls), reqs[k].calls, perReq[k])
			break
		}
	}
	if len(res.Fails) == 0 {
		// the gateway's own resolver works on the document of a plan that other requests share: it must answer like the
		// model and leave the document as it was (L2.gateway-query, 3 documents)
		for k := 0; k < 3; k++ {
			if gf, _ := GwQueryCorr(c, c.Rand(i*100+k+94000000)); len(gf) > 0 {
				res.Fails = append(res.Fails, gf...)
				break
			}
		}
	}
	if len(res.Fails) == 0 {
		// planning is not affected by the requests a gateway has served: after requests that reach a multi-homed field
		// from different parents, a probe query is planned like on a gateway that has seen nothing
		probe := `{ me { lastName nick } allPhotos { likedBy { lastName } } }`
		for _, warm := range []string{`{ allPhotos { likedBy { lastName } owner { lastName } } }`, `{ me { friends { lastName } } }`} {
			f.Run(warm, "", nil, 5*time.Second)
		}
		fresh, err := NewFed(FixedFed(), store)
		if err == nil {
			pu, _, _, _ := f.Plan(probe, 5*time.Second)
			pf, _, _, _ := fresh.Plan(probe, 5*time.Second)
			if canonPlanText(PlanText(pu)) != canonPlanText(PlanText(pf)) {
				bad("L0.isolation", "after other requests the gateway plans a query differently from a gateway that has seen nothing (something shared between plannings was written): "+diffHint(PlanText(pf), PlanText(pu)), PlanText(pf), PlanText(pu))
			}
		}
	}
	if len(res.Fails) == 0 && cachedPlan {
		// requests without a persisted-query hash whose texts differ only in significant white space: each gets the
		// answer a gateway that has seen nothing else gives
		pr := NearTexts[i%len(NearTexts)]
		for k, text := range []string{pr[0], pr[1], pr[0]} {
			o := f.Run(text, "", nil, 5*time.Second)
			fresh, err := NewFed(FixedFed(), store)
			if err != nil {
				break
			}
			w := fresh.Run(text, "", nil, 5*time.Second)
			if Canon(o.Data)+"|"+fmt.Sprint(errMultiset(o.Err)) != Canon(w.Data)+"|"+fmt.Sprint(errMultiset(w.Err)) {
				bad("L0.isolation", fmt.Sprintf("request %d of a sequence of hash-less requests (texts that differ in white space inside a comment or a string) is answered differently from a gateway that has seen nothing else: %q", k, text),
					map[string]interface{}{"data": w.Data, "error": ErrString(w.Err)}, map[string]interface{}{"data": o.Data, "error": ErrString(o.Err)})
				break
			}
		}
	}
	if len(res.Fails) == 0 {
		// one plan list answering requests that differ in operation name and in which variables they supply
		ts := reuseTemplatesFor()
		res.Fails = append(res.Fails, ReuseCheck(c, c.Rand(i+81000000), ts[i%len(ts)], "L0.reuse")...)
	}
	deps := strings.Count(before, "\n1|")
	res.Nontrivial = deps > 0
	res.Counters = map[string]int{"executions": len(reqs), "outbound_calls": ncalls}
	res.Features = []string{fmt.Sprintf("cached-plan:%v", cachedPlan), fmt.Sprintf("optional-variables:%v", optional), fmt.Sprintf("scribbling-services:%v", scribble)}
	if i%11 == 0 {
		res.Sample = map[string]interface{}{"query": q, "variables": reqs[0].vars, "executions": len(reqs), "outbound_calls": ncalls}
	}
	return res
}

// canonPlanText: the steps of a printed plan as a sorted list of blocks (the order of sibling steps is not fixed)
func canonPlanText(s string) string {
	var blocks []string
	cur := ""
	for _, line := range strings.Split(s, "\n") {
		t := strings.TrimLeft(line, " \t")
		if strings.HasPrefix(t, "- [") {
			if cur != "" {
				blocks = append(blocks, cur)
			}
			cur = t
		} else if t != "" && !strings.HasPrefix(t, "scrub=") {
			cur += "\n" + t
		}
	}
	if cur != "" {
		blocks = append(blocks, cur)
	}
	sort.Strings(blocks)
	return strings.Join(blocks, "\n")
}

func init() { Runners["C11"] = c11{} }
