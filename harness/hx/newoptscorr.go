package hx

import (
	"context"
	"fmt"
	"math/rand"
	"net/http"
	"sync"

	"github.com/nautilus/gateway"
	"github.com/nautilus/graphql"
	"github.com/vektah/gqlparser/v2"
	"github.com/vektah/gqlparser/v2/ast"
)

// L2.new-options: gateway.New's handling of its options against Nw.build (lean/GwModel/NewOpts.lean).
//
// A random list of options — planners, priority lists, queryer factories, middleware lists, options that touch none
// of these — goes through the real New; the planners, factories and middlewares record what they are handed and
// whether they are used by a request. The installed planner, what it was told, and the order of the response and
// request middlewares must be the model's.

// recPlanner records what New (or an option) hands to it, and whether requests are planned by it.
type recPlanner struct {
	id      int
	mu      sync.Mutex
	told    []string
	toldSet bool
	factory *gateway.QueryerFactory
	used    int
}

func (p *recPlanner) Plan(ctx *gateway.PlanningContext) (gateway.QueryPlanList, error) {
	p.mu.Lock()
	p.used++
	p.mu.Unlock()
	return gateway.QueryPlanList{{Operation: &ast.OperationDefinition{Operation: ast.Query}, RootStep: &gateway.QueryPlanStep{},
		FieldsToScrub: map[string][][]string{}}}, nil
}

func (p *recPlanner) WithLocationPriorities(l []string) gateway.QueryPlanner {
	p.mu.Lock()
	p.told, p.toldSet = append([]string{}, l...), true
	p.mu.Unlock()
	return p
}

func (p *recPlanner) WithQueryerFactory(f *gateway.QueryerFactory) gateway.QueryPlanner {
	p.mu.Lock()
	p.factory = f
	p.mu.Unlock()
	return p
}

// recExec: a canned executor that applies the request middlewares it is given to a request of its own
type recExec struct {
	mu      sync.Mutex
	request []string
}

func (e *recExec) Execute(ctx *gateway.ExecutionContext) (map[string]interface{}, error) {
	req, _ := http.NewRequest("POST", "http://service/", nil)
	for _, mw := range ctx.RequestMiddlewares {
		if err := mw(req); err != nil {
			return nil, err
		}
	}
	e.mu.Lock()
	e.request = append([]string{}, req.Header["X-Mw"]...)
	e.mu.Unlock()
	return map[string]interface{}{"a": "b"}, nil
}

var newOptsSources []*graphql.RemoteSchema

func newOptsSchemas() []*graphql.RemoteSchema {
	if newOptsSources == nil {
		spec := FixedFed()
		for _, url := range spec.Order {
			sch, err := gqlparser.LoadSchema(&ast.Source{Input: spec.SDLs[url]})
			if err != nil {
				panic(err)
			}
			newOptsSources = append(newOptsSources, &graphql.RemoteSchema{Schema: sch, URL: url})
		}
	}
	return newOptsSources
}

type newOptsCase struct {
	Opts []map[string]interface{} `json:"options"`
}

// NewOptsCorr runs one generated option list through gateway.New and through the model.
func NewOptsCorr(c *Ctx, r *rand.Rand) []Failure {
	if c.Drv == nil {
		return nil
	}
	n := 1 + r.Intn(7)
	var desc []map[string]interface{}
	var opts []gateway.Option
	planners := map[int]*recPlanner{}
	var factories []*gateway.QueryerFactory
	var respLog []string
	var logMu sync.Mutex
	exec := &recExec{}
	execAt := r.Intn(n + 1)
	nextMw := 1
	nextPlanner := 1
	mergerCalls, mergerSaw, mergerInstalled := 0, 0, false
	for k := 0; k <= n; k++ {
		if k == execAt {
			// the executor option: one of the options that touch none of the modelled fields
			desc = append(desc, map[string]interface{}{"k": "other", "what": "WithExecutor"})
			opts = append(opts, gateway.WithExecutor(exec))
		}
		if k == n {
			break
		}
		switch r.Intn(6) {
		case 0:
			id := nextPlanner
			nextPlanner++
			p := &recPlanner{id: id}
			planners[id] = p
			desc = append(desc, map[string]interface{}{"k": "planner", "id": id})
			opts = append(opts, gateway.WithPlanner(p))
		case 1:
			all := []string{"A", "B", "C", "nowhere", "", "A"}
			r.Shuffle(len(all), func(a, b int) { all[a], all[b] = all[b], all[a] })
			l := append([]string{}, all[:r.Intn(len(all)+1)]...)
			desc = append(desc, map[string]interface{}{"k": "priorities", "l": l})
			opts = append(opts, gateway.WithLocationPriorities(l))
		case 2:
			f := gateway.QueryerFactory(func(ctx *gateway.PlanningContext, url string) graphql.Queryer { return nil })
			factories = append(factories, &f)
			desc = append(desc, map[string]interface{}{"k": "factory", "f": len(factories)})
			opts = append(opts, gateway.WithQueryerFactory(&f))
		case 3, 4:
			var ms []interface{}
			var mws []gateway.Middleware
			for j := r.Intn(4); j > 0; j-- {
				id := nextMw
				nextMw++
				name := fmt.Sprint(id)
				if r.Intn(2) == 0 {
					ms = append(ms, map[string]interface{}{"r": true, "id": id})
					mws = append(mws, gateway.ResponseMiddleware(func(ctx *gateway.ExecutionContext, response map[string]interface{}) error {
						logMu.Lock()
						respLog = append(respLog, name)
						logMu.Unlock()
						return nil
					}))
				} else {
					ms = append(ms, map[string]interface{}{"r": false, "id": id})
					mws = append(mws, gateway.RequestMiddleware(func(req *http.Request) error {
						req.Header.Add("X-Mw", name)
						return nil
					}))
				}
			}
			if ms == nil {
				ms = []interface{}{}
			}
			desc = append(desc, map[string]interface{}{"k": "middlewares", "ms": ms})
			opts = append(opts, gateway.WithMiddlewares(mws...))
		default:
			switch r.Intn(3) {
			case 0:
				desc = append(desc, map[string]interface{}{"k": "other", "what": "WithLogger"})
				opts = append(opts, gateway.WithLogger(Quiet{}))
			case 1:
				desc = append(desc, map[string]interface{}{"k": "other", "what": "WithNoQueryPlanCache"})
				opts = append(opts, gateway.WithNoQueryPlanCache())
			default:
				// a merger of the caller's own: it is the one that is asked, once, with every source schema and the
				// gateway's own
				desc = append(desc, map[string]interface{}{"k": "other", "what": "WithMerger"})
				mergerCalls = 0
				mergerInstalled = true
				opts = append(opts, gateway.WithMerger(gateway.MergerFunc(func(schemas []*ast.Schema) (*ast.Schema, error) {
					mergerCalls++
					mergerSaw = len(schemas)
					return schemas[0], nil
				})))
			}
		}
	}
	in := newOptsCase{Opts: desc}
	bad := func(what string, exp, obs interface{}) []Failure {
		return []Failure{{Channel: "L2.new-options", Classifier: "unclassified", What: what, Input: in, Expected: exp, Observed: obs}}
	}
	ans, err := c.Drv.Call(map[string]interface{}{"op": "new-options", "opts": desc})
	if err != nil {
		return []Failure{{Channel: "harness", Classifier: "harness-error", What: err.Error(), Input: in}}
	}
	var gw *gateway.Gateway
	var nerr error
	var panicked interface{}
	func() {
		defer func() { panicked = recover() }()
		gw, nerr = gateway.New(newOptsSchemas(), opts...)
	}()
	if panicked != nil || nerr != nil {
		return bad(fmt.Sprintf("gateway.New failed on a list of legal options: %v %v", panicked, nerr), ans, nil)
	}
	if mergerInstalled && (mergerCalls != 1 || mergerSaw != len(newOptsSchemas())+1) {
		return bad(fmt.Sprintf("the merger given with WithMerger was called %d times with %d schemas (expected once, with the %d sources and the gateway's own)", mergerCalls, mergerSaw, len(newOptsSchemas())), ans, nil)
	}
	rc := &gateway.RequestContext{Context: context.Background(), Query: `{ __typename }`}
	var data map[string]interface{}
	var xerr error
	func() {
		defer func() { panicked = recover() }()
		plans, err := gw.GetPlans(rc)
		if err != nil {
			xerr = err
			return
		}
		data, xerr = gw.Execute(rc, plans)
	}()
	if panicked != nil || xerr != nil || data == nil {
		return bad(fmt.Sprintf("a request through the gateway built from the options failed: %v %v", panicked, xerr), ans, nil)
	}
	// which planner planned the request
	installed := 0
	for id, p := range planners {
		if p.used > 0 {
			if installed != 0 {
				return bad("two of the planners given were used for one request", ans, nil)
			}
			installed = id
		}
	}
	obs := map[string]interface{}{"planner": installed, "response": respLog, "request": exec.request}
	if want := int(numOf(ans["planner"])); want != installed {
		return bad(fmt.Sprintf("the request was planned by planner %d, the model installs planner %d (0 = the default planner)", installed, want), ans, obs)
	}
	for id, p := range planners {
		if id != installed && (p.toldSet || p.factory != nil) {
			return bad(fmt.Sprintf("planner %d is not the installed one and was handed priorities or a factory", id), ans, obs)
		}
	}
	if installed != 0 {
		p := planners[installed]
		var told interface{}
		if p.toldSet {
			told = p.told
		}
		obs["toldPriorities"] = told
		if Canon(told) != Canon(ans["toldPriorities"]) {
			return bad(fmt.Sprintf("the installed planner was told the priorities %s, the model says %s", Canon(told), Canon(ans["toldPriorities"])), ans, obs)
		}
		fid := 0
		for k, f := range factories {
			if f == p.factory {
				fid = k + 1
			}
		}
		obs["toldFactory"] = fid
		want := 0
		if ans["toldFactory"] != nil {
			want = int(numOf(ans["toldFactory"]))
		}
		if fid != want || (p.factory != nil && fid == 0) {
			return bad(fmt.Sprintf("the installed planner was handed factory %d, the model says %d (0 = none)", fid, want), ans, obs)
		}
	}
	strs := func(v interface{}) []string {
		var out []string
		if l, ok := v.([]interface{}); ok {
			for _, x := range l {
				out = append(out, fmt.Sprint(int(numOf(x))))
			}
		}
		return out
	}
	if fmt.Sprint(strs(ans["response"])) != fmt.Sprint(respLog) {
		return bad(fmt.Sprintf("response middlewares ran as %v, the model says %v", respLog, strs(ans["response"])), ans, obs)
	}
	if fmt.Sprint(strs(ans["request"])) != fmt.Sprint(exec.request) {
		return bad(fmt.Sprintf("request middlewares handed to the executor are %v, the model says %v", exec.request, strs(ans["request"])), ans, obs)
	}
	return nil
}
