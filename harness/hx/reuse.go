package hx

import (
	"context"
	"fmt"
	"math/rand"
	"time"

	"github.com/nautilus/gateway"
)

// Plan reuse across requests: ONE plan list (kept by the caller, or served by the automatic persisted-query cache
// under one key) answers a sequence of requests that differ in operation name and in variable values (including
// variables left out so that their defaults apply). Every response must equal what a gateway that plans every
// request afresh answers for the same request. Used by C11 (plans are reusable), C12 (the cache is transparent),
// C14 (introspection arguments through variables) and C17 (the named operation, unaffected by earlier requests).

type reuseReq struct {
	Op   string                 `json:"operation_name"`
	Vars map[string]interface{} `json:"variables"`
}

type reuseTemplate struct {
	Tag  string
	Text string
	Reqs []reuseReq
}

var reuseTemplates = []reuseTemplate{
	{"node-variable-id", `query N($id: ID!) { node(id: $id) { id ... on User { firstName lastName } ... on Photo { url likes } } }`,
		[]reuseReq{{"", map[string]interface{}{"id": "u1"}}, {"", map[string]interface{}{"id": "u2"}}, {"", map[string]interface{}{"id": "p1"}}, {"", map[string]interface{}{"id": "u3"}}}},
	{"introspection-variable-name", `query T($n: String!) { __type(name: $n) { name kind fields { name } } me { firstName } }`,
		[]reuseReq{{"", map[string]interface{}{"n": "User"}}, {"", map[string]interface{}{"n": "Photo"}}, {"", map[string]interface{}{"n": "Query"}}, {"", map[string]interface{}{"n": "Nope"}}}},
	{"introspection-include-deprecated", `query D($d: Boolean = false, $n: String = "User") { __type(name: $n) { name fields(includeDeprecated: $d) { name } } }`,
		[]reuseReq{{"", map[string]interface{}{}}, {"", map[string]interface{}{"d": true, "n": "Photo"}}, {"", map[string]interface{}{"n": "Cat"}}, {"", map[string]interface{}{"d": false}}}},
	{"multi-operation", `query A { me { firstName lastName } } query B { allUsers { firstName nick } } query C($s: Boolean = true) { topPhoto { url likes @include(if: $s) } }`,
		[]reuseReq{{"A", nil}, {"B", nil}, {"C", map[string]interface{}{"s": false}}, {"C", map[string]interface{}{}}, {"Z", nil}, {"", nil}, {"B", nil}, {"A", nil}}},
	{"multi-operation-with-mutation", `mutation M { bump(id: "u1") { firstName nick } } query Q { me { firstName lastName } } query R { topPhoto { url likes } }`,
		[]reuseReq{{"Q", nil}, {"R", nil}, {"Q", nil}, {"Nope", nil}, {"R", nil}}},
	{"optional-variable-on-gateway-field", `query V($i: Boolean = false, $k: ID = "u2") { __schema @include(if: $i) { queryType { name } } node(id: $k) @skip(if: $i) { ... on User { firstName nick } } me { lastName @include(if: $i) } }`,
		[]reuseReq{{"", map[string]interface{}{}}, {"", map[string]interface{}{"i": true}}, {"", map[string]interface{}{"i": false, "k": "u3"}}, {"", map[string]interface{}{"k": "u1"}}, {"", map[string]interface{}{"i": true, "k": "u1"}}}},
	{"optional-variable-dependent-step", `query W($s: Boolean = true, $a: ID = "u1") { user(id: $a) { firstName lastName @include(if: $s) photos { url likes @skip(if: $s) } } }`,
		[]reuseReq{{"", map[string]interface{}{}}, {"", map[string]interface{}{"s": false}}, {"", map[string]interface{}{"a": "u3", "s": true}}, {"", map[string]interface{}{"a": "u2"}}}},
}

func reuseTemplatesFor(tags ...string) []reuseTemplate {
	if len(tags) == 0 {
		return reuseTemplates
	}
	var out []reuseTemplate
	for _, t := range reuseTemplates {
		for _, g := range tags {
			if t.Tag == g {
				out = append(out, t)
			}
		}
	}
	return out
}

func outcomeText(data map[string]interface{}, err error, planErr bool) string {
	e := ""
	if err != nil {
		e = firstLine(err.Error())
	}
	if planErr {
		return "PLAN-ERROR " + e
	}
	return Canon(data) + " | " + e
}

// ReuseCheck runs one template: requests in a shuffled order (with repetitions) against (a) a gateway with the
// automatic plan cache, first request carrying text + key and the later ones the key only (or both), (b) a plan list
// obtained once through GetPlans and executed for every request; both compared with a gateway that plans afresh.
func ReuseCheck(c *Ctx, r *rand.Rand, tpl reuseTemplate, channelPrefix string) []Failure {
	store := GenStore(rand.New(rand.NewSource(5)), false)
	fresh, err := NewFed(FixedFed(), store)
	if err != nil {
		return []Failure{{Channel: "harness", Classifier: "harness-error", What: err.Error()}}
	}
	cached, err := NewFed(FixedFed(), store, gateway.WithQueryPlanCache(gateway.NewAutomaticQueryPlanCache().WithCacheTTL(time.Hour)))
	if err != nil {
		return []Failure{{Channel: "harness", Classifier: "harness-error", What: err.Error()}}
	}
	kept, _ := NewFed(FixedFed(), store)
	n := len(tpl.Reqs) + r.Intn(4)
	var seq []reuseReq
	perm := r.Perm(len(tpl.Reqs))
	for k := 0; k < n; k++ {
		if k < len(perm) {
			seq = append(seq, tpl.Reqs[perm[k]])
		} else {
			seq = append(seq, tpl.Reqs[r.Intn(len(tpl.Reqs))])
		}
	}
	key := fmt.Sprintf("reuse-%s-%d", tpl.Tag, r.Intn(1000))
	var keptPlans gateway.QueryPlanList
	var keptErr error
	var fails []Failure
	input := map[string]interface{}{"template": tpl.Tag, "query": tpl.Text, "requests": seq, "cache_key": key}
	for k, rq := range seq {
		want := fresh.Run(tpl.Text, rq.Op, rq.Vars, 5*time.Second)
		wantText := outcomeText(want.Data, want.Err, want.PlanErr)
		// (a) through the cache
		rc := &gateway.RequestContext{Context: context.Background(), Query: tpl.Text, OperationName: rq.Op, Variables: rq.Vars, CacheKey: key}
		if k > 0 && r.Intn(2) == 0 {
			rc.Query = ""
		}
		var got string
		plans, perr := cached.GW.GetPlans(rc)
		if perr != nil {
			got = outcomeText(nil, perr, true)
		} else {
			d, e := cached.GW.Execute(rc, plans)
			got = outcomeText(d, e, false)
		}
		if got != wantText {
			fails = append(fails, Failure{Channel: channelPrefix + ".cached-plan", Classifier: "unclassified",
				What:  fmt.Sprintf("request %d (operation %q, variables %v) served from the plan cache differs from the answer of a gateway that plans afresh", k, rq.Op, rq.Vars),
				Input: input, Expected: wantText, Observed: got})
			break
		}
		// (b) one plan list kept by the caller
		if k == 0 {
			keptPlans, keptErr = kept.GW.GetPlans(&gateway.RequestContext{Context: context.Background(), Query: tpl.Text, OperationName: rq.Op, Variables: rq.Vars})
		}
		if keptErr != nil {
			got = outcomeText(nil, keptErr, true)
		} else {
			d, e := kept.GW.Execute(&gateway.RequestContext{Context: context.Background(), Query: tpl.Text, OperationName: rq.Op, Variables: rq.Vars}, keptPlans)
			got = outcomeText(d, e, false)
		}
		if got != wantText {
			fails = append(fails, Failure{Channel: channelPrefix + ".kept-plan", Classifier: "unclassified",
				What:  fmt.Sprintf("request %d (operation %q, variables %v) executed on a plan list obtained once differs from the answer of a gateway that plans afresh", k, rq.Op, rq.Vars),
				Input: input, Expected: wantText, Observed: got})
			break
		}
	}
	return fails
}
