package hx

import (
	"context"
	"fmt"
	"math/rand"
	"sort"
	"sync"
	"time"

	"github.com/nautilus/gateway"
	"github.com/nautilus/graphql"
	"github.com/vektah/gqlparser/v2/ast"
)

// L2.exec: the data path of the real ParallelExecutor (executeOneStep: join id from the realised point, node
// stripping and its checks, search of the dependents' insertion points in the step's own reply; the collector's
// executorInsertObject) against Xs.run (lean/GwModel/ExecSeq.lean). The real plan of a generated case is executed
// with every step's queryer wrapped by a recorder; the Lean model gets the shape of the plan (per dependent the
// facts about its insertion point computed here from the parent step's selection) and the recorded replies, and
// must produce the same response before scrubbing, the same number of calls, and errors iff the executor reported any.

type execReply struct {
	Sid  int                    `json:"sid"`
	ID   string                 `json:"id"`
	Data map[string]interface{} `json:"data"`
	Err  bool                   `json:"err"`
}

type execRec struct {
	mu      sync.Mutex
	replies []execReply
}

type recQueryer struct {
	inner graphql.Queryer
	sid   int
	root  bool
	rec   *execRec
}

func (q *recQueryer) Query(ctx context.Context, in *graphql.QueryInput, receiver interface{}) error {
	err := q.inner.Query(ctx, in, receiver)
	id := ""
	if !q.root {
		if v, ok := in.Variables["id"]; ok {
			id = fmt.Sprint(v)
		}
	}
	var data map[string]interface{}
	if m, ok := receiver.(*map[string]interface{}); ok && m != nil && *m != nil {
		data, _ = deepCopy(*m).(map[string]interface{})
	}
	if data == nil {
		data = map[string]interface{}{}
	}
	q.rec.mu.Lock()
	q.rec.replies = append(q.rec.replies, execReply{Sid: q.sid, ID: id, Data: data, Err: err != nil})
	q.rec.mu.Unlock()
	return err
}

func isRootTypeName(t string) bool { return t == "Query" || t == "Mutation" || t == "Subscription" }

// pointInfos: for every point of `keys`, walking down from the selection `ss`: is there a field with that response
// key at this level (fragments expanded, same keys merged), is its type a list, is it non-null
func pointInfos(frags ast.FragmentDefinitionList, ss ast.SelectionSet, keys []string) []interface{} {
	doc := &ast.QueryDocument{Fragments: frags}
	infos := []interface{}{}
	level := ss
	dead := false
	for _, key := range keys {
		info := map[string]interface{}{"key": key, "found": false, "isList": false, "nonNull": false}
		if !dead {
			var found *ast.Field
			for _, f := range flattenFields(doc, level, map[string]bool{}) {
				k := f.Alias
				if k == "" {
					k = f.Name
				}
				if k == key {
					found = f
					break
				}
			}
			if found == nil {
				dead = true
			} else {
				info["found"] = true
				if found.Definition != nil && found.Definition.Type != nil {
					info["isList"] = found.Definition.Type.Elem != nil
					info["nonNull"] = found.Definition.Type.NonNull
				}
				level = found.SelectionSet
			}
		}
		infos = append(infos, info)
	}
	return infos
}

// wrapPlan replaces the queryer of every step by a recorder and serialises the plan's shape for the model
func wrapPlan(plan *gateway.QueryPlan, rec *execRec) (roots []interface{}, depth int) {
	next := 0
	var ser func(s *gateway.QueryPlanStep, d int) map[string]interface{}
	ser = func(s *gateway.QueryPlanStep, d int) map[string]interface{} {
		if d > depth {
			depth = d
		}
		sid := next
		next++
		if s.Queryer != nil {
			s.Queryer = &recQueryer{inner: s.Queryer, sid: sid, root: len(s.InsertionPoint) == 0, rec: rec}
		}
		kids := []interface{}{}
		for _, k := range s.Then {
			var keys []string
			if len(k.InsertionPoint) >= len(s.InsertionPoint) {
				keys = k.InsertionPoint[len(s.InsertionPoint):]
			}
			kids = append(kids, map[string]interface{}{"infos": pointInfos(s.FragmentDefinitions, s.SelectionSet, keys), "step": ser(k, d+1)})
		}
		// nodeParent: `node: null` is a legitimate answer to this step. The executor grants that to steps whose parent type
		// is Node and to steps that hang off a step the GATEWAY answers itself (it looks at the parent's queryer); here
		// every queryer of the plan has just been replaced by a recorder, so only the first reason can apply
		return map[string]interface{}{"sid": sid, "strip": !isRootTypeName(s.ParentType), "nodeParent": s.ParentType == "Node", "kids": kids}
	}
	for _, s := range plan.RootStep.Then {
		roots = append(roots, ser(s, 1))
	}
	return roots, depth
}

// ExecCorr runs one federated input with recorded replies and compares the executor's raw response with the model.
func ExecCorr(c *Ctx, in FedInput) (fails []Failure, note string) {
	if c.Drv == nil {
		return nil, ""
	}
	store := GenStore(rand.New(rand.NewSource(in.StoreSeed)), in.OddIDs)
	if in.ListLen > 0 {
		var ids []string
		for id := range store["User"] {
			ids = append(ids, id)
		}
		sort.Strings(ids)
		if len(in.ListOnly) > 0 {
			ids = in.ListOnly
		}
		var l []interface{}
		for i := 0; i < in.ListLen; i++ {
			l = append(l, Ref{"User", ids[i%len(ids)]})
		}
		store["Query"][""]["allUsers"] = l
	}
	capx := &CapExec{Inner: &gateway.ParallelExecutor{}}
	f, err := NewFed(in.Spec, store, gateway.WithExecutor(capx))
	if err != nil {
		return nil, "federation rejected"
	}
	InstallFaults(f, in.Faults, in.Barrier)
	rc := &gateway.RequestContext{Context: context.Background(), Query: in.Query, OperationName: in.OpName, Variables: in.Vars}
	type planned struct {
		plans gateway.QueryPlanList
		err   error
	}
	pch := make(chan planned, 1)
	go func() {
		defer func() {
			if r := recover(); r != nil {
				pch <- planned{nil, fmt.Errorf("panic: %v", r)}
			}
		}()
		p, e := f.GW.GetPlans(rc)
		pch <- planned{p, e}
	}()
	var pl planned
	select {
	case pl = <-pch:
	case <-time.After(5 * time.Second):
		return nil, "plan-hung"
	}
	if pl.err != nil || len(pl.plans) == 0 {
		return nil, "not-planned"
	}
	plan := pl.plans[0]
	if len(pl.plans) > 1 {
		p, err := pl.plans.ForOperation(in.OpName)
		if err != nil {
			return nil, "no-such-operation"
		}
		plan = p
	}
	if plan.RootStep == nil || len(plan.RootStep.Then) == 0 {
		return nil, "empty-plan"
	}
	rec := &execRec{}
	roots, depth := wrapPlan(plan, rec)
	type executed struct {
		err      error
		panicked interface{}
	}
	ech := make(chan executed, 1)
	go func() {
		defer func() {
			if r := recover(); r != nil {
				ech <- executed{panicked: r}
			}
		}()
		_, e := f.GW.Execute(rc, pl.plans)
		ech <- executed{err: e}
	}()
	var ex executed
	select {
	case ex = <-ech:
	case <-time.After(10 * time.Second):
		return nil, "hung"
	}
	if ex.panicked != nil {
		return nil, "panicked"
	}
	capx.mu.Lock()
	raw := capx.Raw
	ex.err = capx.Err // the executor's own verdict: a response middleware can add errors no task failed with
	capx.mu.Unlock()
	rec.mu.Lock()
	replies := append([]execReply{}, rec.replies...)
	rec.mu.Unlock()
	// the same (step, id) asked twice must have been answered alike, otherwise the table is ambiguous
	seen := map[string]string{}
	var table []interface{}
	for _, r := range replies {
		k := fmt.Sprintf("%d#%s", r.Sid, r.ID)
		v := Canon(map[string]interface{}{"data": r.Data, "err": r.Err})
		if old, ok := seen[k]; ok {
			if old != v {
				return nil, "ambiguous-replies"
			}
			continue
		}
		seen[k] = v
		table = append(table, map[string]interface{}{"sid": r.Sid, "id": r.ID, "data": r.Data, "err": r.Err})
	}
	ans, derr := c.Drv.Call(map[string]interface{}{"op": "exec", "roots": roots, "replies": table, "depth": depth})
	if derr != nil {
		return []Failure{{Channel: "harness", Classifier: "harness-error", What: derr.Error(), Input: in}}, ""
	}
	obs := map[string]interface{}{"raw": raw, "error": ErrString(ex.err), "calls": len(replies), "plan": PlanText(pl.plans)}
	bad := func(what string) []Failure {
		return []Failure{{Channel: "L2.exec", Classifier: "unclassified", What: what, Input: in, Expected: ans, Observed: obs}}
	}
	if m := numOf(ans["missing"]); m > 0 {
		return bad(fmt.Sprintf("the executor model asks for %v replies that the real executor never requested (a step ran for an object the executor did not run it for)", m)), ""
	}
	if calls := numOf(ans["calls"]); int(calls) != len(replies) {
		return bad(fmt.Sprintf("the real executor made %d service calls, the model %v", len(replies), calls)), ""
	}
	var rawAny interface{} = raw
	if raw == nil {
		rawAny = map[string]interface{}{}
	}
	if Canon(normalise(rawAny)) != Canon(normalise(ans["data"])) {
		return bad("the response stitched by the real executor differs from the model's: " + firstDiff(normalise(rawAny), normalise(ans["data"]), "")), ""
	}
	failed := numOf(ans["failed"])
	if (failed > 0) != (ex.err != nil) {
		return bad(fmt.Sprintf("the model ends with %v failed tasks, the executor reported: %q", failed, firstLine(ErrString(ex.err)))), ""
	}
	return nil, "compared"
}
