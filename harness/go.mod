module gwverif

go 1.17

require (
	github.com/mitchellh/mapstructure v1.4.1
	github.com/nautilus/gateway v0.0.0
	github.com/nautilus/graphql v0.0.26
	github.com/vektah/gqlparser/v2 v2.5.16
)

require (
	github.com/99designs/gqlgen v0.17.15 // indirect
	github.com/agnivade/levenshtein v1.1.1 // indirect
	github.com/graph-gophers/dataloader v5.0.0+incompatible // indirect
	github.com/opentracing/opentracing-go v1.2.0 // indirect
	github.com/pkg/errors v0.9.1 // indirect
	github.com/sirupsen/logrus v1.9.3 // indirect
	golang.org/x/sys v0.18.0 // indirect
)

replace github.com/nautilus/gateway => /repo
